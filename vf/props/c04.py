"""C04 - decoder accepts every valid BER form of a message (encoding-freedom injection, differential)."""
from __future__ import annotations

import copy

from vf import absval as av
from vf.common import Acc, CpuTimeout, Ctx, cpu_limit, norm_msg, to_tuple
from vf.gen import values as gv
from vf.ref import ber, rfc4511

sl = av.sl
LEVEL = "fault_enumeration"
RULE = (
    "abstract message -> reference encoder tree -> valid-BER freedoms -> real decoder (unpack_ldap_message and LDAPSession.receive). "
    "Freedoms per node: length form {minimal, 0x81, 0x82, 0x83, 0x84 (AD), long form padded with 1-4 zero octets}, TRUE octet 0x01-0xFF, "
    "explicit DEFAULT FALSE (criticality, dnAttributes), 0-2 unrecognised trailing elements after the components of every SEQUENCE "
    "(context tags 20-30, high-tag-number, PRIVATE; primitive/constructed). Systematic part: every single (node x freedom) alteration of "
    "small messages; random part: independent choice at every node; non-trivial = >= 2 freedoms applied at different depths; "
    "distinct by hash of the alternative encoding"
)
ASSUMPTIONS = [
    "an alternative encoding is valid iff it is produced by the reference encoder under the listed freedoms (X.690 8.1.3, 8.2; RFC 4511 section 4 trailing components)",
    "known controls are compared by parsed fields; their raw .value mirrors the alternative inner encoding",
]
LENFORMS = ["min", "L81", "L82", "L83", "L84", "Lpad"]


def shards(tier):
    return 16


def gates(c, tier):
    out = []
    for lf in LENFORMS[1:]:
        if c.get("freedom:" + lf, 0) == 0:
            out.append(f"length form {lf} never applied")
    for k in ("freedom:TRUE!=ff", "freedom:explicit-default:criticality", "freedom:explicit-default:dnAttributes", "freedom:trailing", "freedom:unknown-substring-alternative-at-the-end", "freedom:empty-controls-element", "freedom:trailing-envelope-[10]", "freedom:trailing-after-all-components",
              "ad-style-all-84", "via:unpack", "via:receive", "via:receive-two-pieces", "systematic"):
        if c.get(k, 0) == 0:
            out.append(f"never applied: {k}")
    for op in gv.OPS:
        if c.get("ad84:" + op, 0) == 0:
            out.append(f"no all-0x84 encoding of {op}")
    return out


def _lenform(node, form, r):
    """Translate a symbolic form to Node.lenform (number of length octets), keeping it valid."""
    body_len = None  # computed by ser; we only need the minimal octet count bound, handled in length_octets
    if form == "min":
        node.lenform = "min"
    elif form == "L81":
        node.lenform = 1  # length_octets raises it if the length needs more
    elif form == "L82":
        node.lenform = 2
    elif form == "L83":
        node.lenform = 3
    elif form == "L84":
        node.lenform = 4
    elif form == "Lpad":
        # X.690 8.1.3.5 allows up to 126 subsequent length octets; most padded forms are short, some very long
        node.lenform = ("pad", r.randrange(1, 5) if r.random() < 0.85 else r.choice([6, 12, 13, 14, 15, 16, 30, 64, 120]))


def _ser(node) -> bytes:
    """Serialiser honouring ('pad', k) = minimal long form + k leading zero octets."""
    if node.children is not None:
        body = b"".join(_ser(c) for c in node.children)
    elif isinstance(node.meta, ber.Node):
        body = _ser(node.meta)
    else:
        body = bytes(node.content or b"")
    lf = node.lenform
    if isinstance(lf, tuple):
        need = max(1, (len(body).bit_length() + 7) // 8)
        lo = ber.length_octets(len(body), need + lf[1])
    else:
        lo = ber.length_octets(len(body), lf)
    return ber.ident_octets(node.cls, node.pc, node.num) + lo + body


def g_trailing(r, all_present=False):
    if all_present and r.random() < 0.5:
        # all defined components are present, so even an element with a universal tag is a trailing one
        kind = r.choice(["oct", "bool", "int", "seq"])
        if kind == "oct":
            return ber.Node(ber.UNIV, False, 4, content=r.randbytes(r.choice([0, 3])), kind="TRAIL")
        if kind == "bool":
            return ber.Node(ber.UNIV, False, 1, content=bytes([r.choice([0, 255])]), kind="TRAIL")
        if kind == "int":
            return ber.Node(ber.UNIV, False, 2, content=bytes([r.randrange(0, 128)]), kind="TRAIL")
        return ber.Node(ber.UNIV, True, 16, children=[], kind="TRAIL")
    cls, num = r.choice([(ber.CTX, r.randrange(20, 31)), (ber.CTX, r.choice([31, 127, 128, 16384, 2**21])), (ber.CTX, r.choice([2**35, 2**63, 2**64 + 1, 2**70])), (ber.PRIV, r.randrange(0, 40)),
                         (ber.CTX, 99), (ber.PRIV, 2**14)])
    if r.random() < 0.5:
        n = ber.Node(cls, False, num, content=r.randbytes(r.choice([0, 1, 3, 130])), kind="TRAIL")
    else:
        kids = [ber.Node(ber.UNIV, False, 4, content=r.randbytes(r.choice([0, 2])), kind="TRAIL") for _ in range(r.choice([0, 1, 2]))]
        n = ber.Node(cls, True, num, children=kids, kind="TRAIL")
    return n


def all_nodes(root):
    out = []

    def walk(n, depth):
        out.append((n, depth))
        if n.children:
            for c in n.children:
                walk(c, depth + 1)
        if isinstance(n.meta, ber.Node):
            walk(n.meta, depth + 1)

    walk(root, 0)
    return out


def decode_both(data: bytes, a, acc_count):
    """Decode through both entry points; return list of (key, what)."""
    out = []
    op = a[0]
    for via in ("unpack", "receive"):
        acc_count("via:" + via)
        try:
            with cpu_limit(5):
                if via == "unpack":
                    rd = sl.asn1.ASN1Reader(data)
                    m = sl._messages.unpack_ldap_message(rd, sl._messages.PackingOptions())
                    rem = rd.get_remaining_data()
                    if rem:
                        out.append((f"left-over:{op}", f"decoder left {len(rem)} bytes of a single valid message"))
                else:
                    sess = sl.LDAPSession()
                    try:
                        if len(data) > 2 and (len(data) % 3):
                            # two pieces: cut inside the first header octets, or anywhere
                            hsh = (sum(data[:24]) * 31 + len(data) * 7 + data[-1]) & 0xFFFF
                            cut = (1 + hsh % min(8, len(data) - 1)) if len(data) % 3 == 1 else (1 + hsh % (len(data) - 1))
                            ms = sess.receive(data[:cut])
                            ms = ms + sess.receive(data[cut:])
                            acc_count("via:receive-two-pieces")
                        else:
                            ms = sess.receive(data)
                    except sl.ProtocolError as e:
                        if e.request is not None and (op == "UnbindRequest" or (op == "ExtendedResponse" and a[2][1] == gv.NOTICE_OID)):
                            ms = [e.request]
                        else:
                            raise
                    if len(ms) != 1:
                        out.append((f"receive-count:{op}", f"receive returned {len(ms)} messages for one valid PDU"))
                        continue
                    m = ms[0]
                got = av.abstract(m)
                if got != a:
                    # locate the differing part for the key
                    part = "id" if got[1] != a[1] else ("body" if got[2] != a[2] else "controls")
                    out.append((f"alt-diff:{op}:{part}", f"{via}: alternative valid encoding decodes to a different message: {str(got)[:160]} expected {str(a)[:160]}"))
        except CpuTimeout:
            out.append((f"alt-no-return:{op}", f"{via}: decoding a {len(data)}-byte valid alternative encoding did not return within 5 CPU-seconds"))
        except Exception as e:
            out.append((f"alt-exc:{op}:{norm_msg(e)}", f"{via}: valid alternative encoding raised {type(e).__name__}: {e}"))
    return out


def envelope_trailing(r, a):
    """[10] at the end of the envelope: the library reads it as the responseName of MS-ADTS's notice of disconnection for an
    ExtendedResponse without a name; for every other message it is one more unrecognised trailing element."""
    if a is None or (a[0] == "ExtendedResponse" and not a[2][1]):
        return None
    return ber.Node(ber.CTX, False, 10, content=r.choice([b"1.2.3", b"cn=someone-else", b"1.3.6.1.4.1.1466.20036", b"", b"x"]), kind="TRAIL")


def apply_random(root, r, acc_count, p_len=0.35, p_trail=0.25, a=None):
    depths = set()
    nfree = 0
    if a is not None and not a[3] and len(root.children) == 2 and r.random() < 0.15:
        # Controls ::= SEQUENCE OF control may be present and empty (A0 00): the same as no controls
        root.children.append(ber.Node(ber.CTX, True, 0, children=[], kind="EMPTY-SEQ-OF"))
        acc_count("freedom:empty-controls-element")
        nfree += 1
        depths.add(1)
    for n, d in all_nodes(root):
        if r.random() < p_len:
            form = r.choice(LENFORMS[1:])
            _lenform(n, form, r)
            acc_count("freedom:" + form)
            depths.add(d)
            nfree += 1
        if n.kind == "BOOL" and n.content != b"\x00" and r.random() < 0.7:
            n.content = bytes([r.randrange(1, 256)])
            if n.content != b"\xff":
                acc_count("freedom:TRUE!=ff")
                depths.add(d)
                nfree += 1
        if n.kind == "SEQOF-SUBSTRINGS" and n.children and r.random() < p_trail / 2:
            # substring CHOICE { initial [0], any [1], final [2], ... }: an alternative this version does not know, after
            # the last known one (the library skips such elements)
            n.children.append(ber.Node(ber.CTX, r.random() < 0.3, r.choice([3, 4, 9, 30, 31, 99]), content=r.randbytes(r.choice([0, 2])), kind="TRAIL") if r.random() < 0.7
                              else ber.Node(ber.PRIV, False, r.randrange(0, 5), content=b"x", kind="TRAIL"))
            acc_count("freedom:unknown-substring-alternative-at-the-end")
            depths.add(d)
            nfree += 1
        if n.kind == "SEQ" and n.children is not None and r.random() < p_trail:
            for _ in range(r.choice([1, 1, 2])):
                t10 = envelope_trailing(r, a) if (d == 0 and r.random() < 0.35) else None
                if t10 is not None:
                    acc_count("freedom:trailing-envelope-[10]")
                n.children.append(t10 or g_trailing(r, n.meta == "all-present"))
            if n.meta == "all-present":
                acc_count("freedom:trailing-after-all-components")
            acc_count("freedom:trailing")
            acc_count("trailing-in:" + ("envelope" if d == 0 else f"{'APPL' if n.cls == 1 else ('CTX' if n.cls == 2 else 'UNIV')}{n.num}"))
            depths.add(d)
            nfree += 1
    return nfree, depths


def run_case(a, mode, rseed):
    """mode: ('random',) | ('ad84',) | ('single', node_index, freedom) ; deterministic from rseed."""
    from vf.common import rng_for

    r = rng_for("c04case", rseed)
    counts = {}

    def cnt(k, n=1):
        counts[k] = counts.get(k, 0) + n

    def expl(site):
        if mode[0] == "random" and r.random() < 0.5:
            cnt("freedom:explicit-default:" + site)
            return True
        if mode[0] == "single" and mode[2] == "explicit:" + site:
            cnt("freedom:explicit-default:" + site)
            return True
        return False

    enc = rfc4511.Enc(explicit_default=expl)
    root = enc.message(a)
    nfree, depths = 0, set()
    if mode[0] == "random":
        nfree, depths = apply_random(root, r, cnt, a=a)
    elif mode[0] == "ad84":
        for n, d in all_nodes(root):
            n.lenform = 4
        cnt("ad-style-all-84")
        cnt("ad84:" + a[0])
        nfree, depths = 2, {0, 1}
    elif mode[0] == "single":
        nodes = all_nodes(root)
        idx, fr = mode[1], mode[2]
        if idx < len(nodes):
            n, d = nodes[idx]
            if fr in LENFORMS:
                _lenform(n, fr, r)
                cnt("freedom:" + fr)
            elif fr.startswith("TRUE="):
                if n.kind == "BOOL" and n.content != b"\x00":
                    n.content = bytes([int(fr[5:])])
                    cnt("freedom:TRUE!=ff")
            elif fr == "trail1" or fr == "trail2":
                if n.kind == "SEQ" and n.children is not None:
                    for _ in range(int(fr[-1])):
                        t10 = envelope_trailing(r, a) if (d == 0 and r.random() < 0.35) else None
                        if t10 is not None:
                            cnt("freedom:trailing-envelope-[10]")
                        n.children.append(t10 or g_trailing(r, n.meta == "all-present"))
                    cnt("freedom:trailing")
                    cnt("trailing-in:" + ("envelope" if d == 0 else f"{'APPL' if n.cls == 1 else ('CTX' if n.cls == 2 else 'UNIV')}{n.num}"))
        cnt("systematic")
    data = _ser(root)
    res = decode_both(data, a, cnt)
    return res, data, counts, nfree, depths


def rfc_only(m):
    return m


class StopShard(Exception):
    pass


def run_shard(ctx: Ctx, acc: Acc):
    try:
        _run_shard(ctx, acc)
    except StopShard:
        acc.count("shard-stopped-early-after-hangs")


def _run_shard(ctx: Ctx, acc: Acc):
    n = ctx.scale(60_000, 1_500_000)
    prof = gv.THOROUGH if ctx.thorough else gv.QUICK

    def record(a, mode, rseed):
        res, data, counts, nfree, depths = run_case(a, mode, rseed)
        acc.case()
        for k, v in counts.items():
            acc.count(k, v)
        if nfree >= 2 and len(depths) >= 2:
            acc.nontrivial(data)
        for key, what in res:
            acc.violation(key, what, {"message": a, "mode": list(mode), "rseed": rseed, "encoding": data})
            if key.startswith("alt-no-return"):
                acc.count("no-return")
        if acc.counters.get("no-return", 0) >= 3:
            raise StopShard()
        return data

    # random part
    for i in range(n):
        r = ctx.rng(i)
        a = gv.g_message(r, prof if i % 4 else gv.SMALL, op=gv.OPS[i % 9] if i < 450 else None)
        mode = ("ad84",) if i % 10 == 0 else ("random",)
        data = record(a, mode, f"{ctx.seed}:{ctx.shard}:{i}")
        if i < 2:
            acc.sample({"message": a, "mode": mode, "alternative_encoding": data[:160], "library_encoding": av.build(a).pack(sl._messages.PackingOptions())[:160]})
    # systematic part: every single (node x freedom) of small messages
    m = ctx.scale(600, 12_000)
    for j in range(m):
        r = ctx.rng("sys", j)
        a = gv.g_message(r, gv.SMALL, op=gv.OPS[(j + ctx.shard) % 9])
        root = rfc4511.Enc().message(a)
        nodes = all_nodes(root)
        for idx, (nd, d) in enumerate(nodes):
            frs = list(LENFORMS[1:])
            if nd.kind == "BOOL" and nd.content != b"\x00":
                frs += ["TRUE=1", "TRUE=128", f"TRUE={r.randrange(2, 255)}"]
            if nd.kind == "SEQ":
                frs += ["trail1", "trail2"]
            for fr in frs:
                record(a, ("single", idx, fr), f"{ctx.seed}:{ctx.shard}:s{j}:{idx}:{fr}")
        for site in ("criticality", "dnAttributes"):
            record(a, ("single", 10**6, "explicit:" + site), f"{ctx.seed}:{ctx.shard}:s{j}:{site}")


def replay(w):
    res, data, counts, nfree, depths = run_case(to_tuple(w["message"]), tuple(w["mode"]), w["rseed"])
    return res
