"""C06 - no complete protocol data unit is ever silently discarded (conservation against an independent framer)."""
from __future__ import annotations

from vf import absval as av
from vf import sess as S
from vf.common import Acc, CpuTimeout, Ctx, cpu_limit, norm_msg
from vf.gen import corrupt as C
from vf.gen import values as gv
from vf.ref import ber, rfc4511

sl = av.sl
LEVEL = "fault_enumeration"
RULE = (
    "streams of 1-6 complete top-level TLVs whose interior is one of {valid, inner length overrunning its parent at any depth, "
    "mandatory component missing, known control with absent/short/garbage value, random interior}, delivered under random and "
    "per-byte chunkings to LDAPSession/LDAPServer/LDAPClient; after every receive that returns, messages returned so far must equal "
    "the complete units delivered so far according to an independent framer (outer identifier + definite length only); a raise "
    "accounts for everything; non-trivial = stream with >= 1 complete but internally malformed unit; distinct by hash of (stream, cuts)"
)
ASSUMPTIONS = ["the framer (vf/ref/ber.frame_count) reads only outer identifier and length octets, per X.690 8.1"]
CLASSES = ["valid", "overrun", "missing", "control", "random", "unknown-op"]
PAGED = "1.2.840.113556.1.4.319"


def shards(tier):
    return 16


def gates(c, tier):
    out = [f"no unit of interior class {k}" for k in CLASSES if c.get("unit:" + k, 0) == 0]
    for k in ("deciding:complete-and-malformed", "outcome:raised", "outcome:all-returned", "call:returned-nothing-while-incomplete", "part:burst-of-many-units"):
        if c.get(k, 0) == 0:
            out.append(f"never observed {k}")
    return out


def g_unit(r, klass, kind_pool):
    """Return bytes of one complete top-level TLV of the given interior class."""
    op = r.choice(kind_pool)
    a = gv.g_message(r, gv.SMALL, op=op, mid=r.randrange(1, 50))
    data = rfc4511.encode(a)
    if klass == "valid":
        if r.random() < 0.25:  # the same unit with its outer length in a (valid) non-minimal long form
            root = ber.parse(data)
            body = data[root.hdr:]
            return b"\x30" + ber.length_octets(len(body), r.choice([1, 2, 3, 4, 5, 8, 13, 14, 15, 16, 17, 40, 126])) + body
        return data
    root, nodes = C.nodes_of(data)
    if klass == "overrun":
        inner = [k for k in range(1, len(nodes))]
        if not inner:
            return None
        k = r.choice(inner)
        mut = C.apply(data, root, nodes, k, r.choice(["len+1", "len+k"]), r, fixup=False)
        return mut
    if klass == "missing":
        x = r.randrange(5)
        if x == 0:
            return r.choice([b"\x30\x00", b"\x30\x81\x00", b"\x30\x82\x00\x00", b"\x30\x84\x00\x00\x00\x00", b"\x30\x85\x00\x00\x00\x00\x00"])
        if x == 1:
            return b"\x30\x03\x02\x01" + bytes([r.randrange(1, 100)])
        if x == 2:
            return b"\x30\x05\x02\x01\x01" + bytes([0x60 | r.choice([0, 1, 3, 4, 5, 23, 24])]) + b"\x00"
        # delete trailing children of some constructed node (fix-up keeps outer consistent)
        cons = [k for k in range(len(nodes)) if nodes[k][0].children]
        k = r.choice(cons)
        n = nodes[k][0]
        last = n.children[-1]
        li = [i for i in range(len(nodes)) if nodes[i][0] is last][0]
        return C.apply(data, root, nodes, li, "node-delete", r, fixup=True)
    if klass == "control":
        x = r.randrange(4)
        if x == 0:
            ctl = (PAGED, r.random() < 0.5, None, None)  # paged control without value
        elif x == 1:
            ctl = (PAGED, False, b"", None)
        elif x == 2:
            ctl = (PAGED, True, b"\x30\x05\x02\x01\x05\x04\x09", None)  # cookie length overruns
        else:
            ctl = (PAGED, False, r.randbytes(r.choice([1, 2, 6])), None)
        a2 = (a[0], a[1], a[2], (ctl,))
        return rfc4511.encode(a2)
    if klass == "unknown-op":
        # a well-formed LDAPMessage whose protocolOp is an RFC 4511 operation the library does not implement
        # (modify 6/7, add 8/9, del 10/11, modDN 12/13, compare 14/15, abandon 16, intermediate 25) or an unassigned one
        num = r.choice([6, 7, 8, 9, 10, 11, 12, 13, 14, 15, 16, 25, 26, 30, 77])
        if num in (10, 16):
            opn = ber.ident_octets(1, False, num) + b"\x01\x05"
        else:
            body = b"\x04\x04dc=x" + r.choice([b"", b"\x30\x00", b"\x0a\x01\x00\x04\x00\x04\x00"])
            opn = ber.ident_octets(1, True, num) + ber.length_octets(len(body)) + body
        env = b"\x02\x01" + bytes([r.randrange(1, 100)]) + opn
        return b"\x30" + ber.length_octets(len(env)) + env
    if klass == "random":
        body = r.randbytes(r.choice([0, 1, 2, 5, 12, 40]))
        return b"\x30" + ber.length_octets(len(body)) + body
    raise ValueError(klass)


def run_case(sess_kind, stream: bytes, cuts):
    out = []
    obs = {}
    if sess_kind == "base":
        sess = sl.LDAPSession()
    elif sess_kind == "server":
        sess = sl.LDAPServer()
    else:
        sess, _ = S.client_with("opened-ops")
    delivered = b""
    returned = 0
    raised = False
    for ch in C.split(stream, cuts):
        delivered += ch
        units, off, err = ber.frame_count(delivered)
        kind = (len(stream) + len(delivered)) % 3
        buf = bytearray(ch) if kind else None
        arg = ch if kind == 0 else (buf if kind == 1 else memoryview(buf))
        try:
            with cpu_limit(10):
                res = sess.receive(arg)
            if buf is not None:
                buf[:] = b"\xAA" * len(buf)
        except CpuTimeout:
            out.append(("no-return-within-cpu-budget", "receive did not return within 10 CPU-seconds"))
            raised = True
            break
        except sl.ProtocolError:
            raised = True
            obs["outcome:raised"] = 1
            break
        except Exception as e:
            out.append((f"escape:{type(e).__name__}", f"receive raised {type(e).__name__}: {e}"))
            raised = True
            break
        returned += len(res)
        if returned != units:
            obs["discarded-or-held"] = 1
            buf = getattr(sess, "_incoming_buffer", None)
            out.append((
                "complete-unit-unaccounted" if returned < units else "more-messages-than-units",
                f"{units} complete top-level units delivered, {returned} messages returned, nothing raised "
                f"(private residue: {len(buf) if buf is not None else '?'} bytes, bytes after last complete unit: {len(delivered) - off})",
            ))
            break
        if not res and units == returned and off < len(delivered):
            obs["call:returned-nothing-while-incomplete"] = 1
    if not raised and not out:
        obs["outcome:all-returned"] = 1
    return out, obs


def run_shard(ctx: Ctx, acc: Acc):
    bursts(ctx, acc)
    n = ctx.scale(50_000, 1_200_000)
    for i in range(n):
        r = ctx.rng(i)
        sess_kind = r.choice(["base", "base", "server", "client"])
        pool = {"base": gv.OPS, "server": ["SearchRequest", "ExtendedRequest"], "client": ["SearchResultEntry", "SearchResultReference"]}[sess_kind]
        pool = [o for o in pool if o != "UnbindRequest"] if r.random() < 0.9 else list(pool)
        units = []
        classes = []
        for _ in range(r.choice([1, 1, 2, 3, 6])):
            k = r.choice(CLASSES) if r.random() < 0.6 else "valid"
            u = g_unit(r, k, pool)
            if u is None:
                continue
            # keep only units the framer sees as complete single TLVs
            cnt, off, err = ber.frame_count(u)
            if cnt != 1 or off != len(u):
                continue
            units.append(u)
            classes.append(k)
        if not units:
            continue
        if sess_kind == "client":
            # client ids in progress are 1 (search) and 2; entries/references for id 1 keep it in progress
            units2 = []
            for u, k in zip(units, classes):
                units2.append(u)
            units = units2
        stream = b"".join(units)
        bounds = []
        p = 0
        for u in units:
            p += len(u)
            bounds.append(p)
        cuts = C.g_chunking(r, len(stream), bounds)
        acc.case()
        for k in classes:
            acc.count("unit:" + k)
        if any(k != "valid" for k in classes):
            acc.count("deciding:complete-and-malformed")
            acc.nontrivial(stream, tuple(cuts))
        if i < 2:
            acc.sample({"session": sess_kind, "classes": classes, "stream": stream[:200], "cuts": cuts[:20]})
        vio, obs = run_case(sess_kind, stream, cuts)
        for k, v in obs.items():
            acc.count(k, v)
        for key, what in vio:
            acc.violation(key, what, {"session": sess_kind, "stream": stream, "cuts": list(cuts), "classes": classes})
            if key == "no-return-within-cpu-budget":
                acc.count("no-return")
        if acc.counters.get("no-return", 0) >= 3:
            acc.count("shard-stopped-early-after-hangs")
            return


def burst_stream(sess_kind, count, seed):
    """count small complete units in one stream (a burst of search entries / pipelined requests)."""
    import random

    r = random.Random(seed)
    out = []
    for j in range(count):
        if sess_kind == "client":
            a = ("SearchResultEntry", 1, ("cn=e%d" % j, (("cn", (b"v",)),) if j % 3 else ()), ()) if j % 5 else ("SearchResultReference", 1, (("ldap://r%d/" % j,),), ())
        else:
            a = ("ExtendedRequest", 10 + j, ("1.2.3", None if j % 2 else b"v"), ()) if j % 4 else ("SearchRequest", 10 + j, ("dc=x", 2, 0, 0, 0, False, ("present", "cn"), ()), ())
        out.append(rfc4511.encode(a))
    return b"".join(out), r


def bursts(ctx, acc):
    sizes = [200, 255, 256, 257, 300, 512, 513, 1000, 1025, 4097] + ([20000, 65537] if ctx.thorough else [])
    for si, count in enumerate(sizes):
        for ki, sess_kind in enumerate(("base", "server", "client")):
            if (si * 3 + ki) % ctx.nshards != ctx.shard:
                continue
            stream, r = burst_stream(sess_kind, count, ctx.seed * 7919 + count)
            for cuts in ([], [len(stream) // 2], [len(stream) - 1], sorted(r.randrange(1, len(stream)) for _ in range(3))):
                acc.case()
                acc.count("part:burst-of-many-units")
                acc.nontrivial("burst", sess_kind, count, tuple(cuts))
                vio, obs = run_case(sess_kind, stream, cuts)
                for k, v in obs.items():
                    acc.count(k, v)
                for key, what in vio:
                    acc.violation(key, what + f" [burst of {count} units in {len(cuts) + 1} deliveries]", {"session": sess_kind, "burst": [count, ctx.seed * 7919 + count], "cuts": list(cuts)})


def replay(w):
    if w.get("burst"):
        stream, _ = burst_stream(w["session"], w["burst"][0], w["burst"][1])
        return run_case(w["session"], stream, list(w["cuts"]))[0]
    vio, obs = run_case(w["session"], bytes(w["stream"]), list(w["cuts"]))
    return vio
