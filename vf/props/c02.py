"""C02 - message reassembly is independent of how the byte stream is chunked (history + framing invariant)."""
from __future__ import annotations

import copy
import itertools

from vf import absval as av
from vf.common import Acc, Ctx, norm_msg, to_tuple
from vf.gen import corrupt as C
from vf.gen import values as gv
from vf.ref import ber, rfc4511

sl = av.sl
LEVEL = "exploration"
RULE = (
    "error-free, model-legal streams for both roles (server: optional bind then 1-12 search/extended requests; client: requests issued "
    "through the API then an interleaved legal response stream), reference-encoded; partitions: every single cut (exhaustive), every pair "
    "of cuts for streams <= 120 bytes (exhaustive), byte-by-byte, random k-cuts with empty chunks, message boundaries +-1, cuts inside the "
    "first 6 header bytes of every PDU, a 70 KB entry cut randomly; chunks passed as bytes/bytearray/memoryview, caller buffers overwritten "
    "with 0xAA after receive returns; non-trivial = partition with >= 2 cuts or a cut inside a header; distinct by hash of (stream, cuts)"
)
ASSUMPTIONS = [
    "streams contain no unbind / notice of disconnection (they end a run by design; covered by C08/C11)",
    "probe equivalence: deep copies of the two final sessions are offered the same follow-up calls and must accept/reject identically",
]


def shards(tier):
    return 16


def gates(c, tier):
    need = ["call:partial-pending-completes>=2-leaves-tail", "call:empty-residue", "cut:inside-header", "chunk:empty", "role:client", "role:server",
            "chunk:bytearray-overwritten", "chunk:memoryview", "chunk:memoryview-slice-of-larger-buffer", "chunk:memoryview-of-signed-or-char-items", "caller-edits-returned-messages", "callers-memoryview-still-usable", "part:stream-with-refused-message", "failed-session-before-case", "partition:single-exhaustive", "partition:pairs-exhaustive", "partition:bytewise",
            "probe:compared", "big-entry", "stream:alternative-length-forms", "bystander-session-checked"]
    return [f"never observed {k}" for k in need if c.get(k, 0) == 0]


# ------------------------------------------------------------------ scenarios

def g_scenario(r, prof, big=False):
    """Returns dict(role, setup (list of abstract requests the client issues), msgs (list of abstract messages in the stream))."""
    role = r.choice(["client", "server"])
    if role == "server":
        msgs = []
        mid = 1
        if r.random() < 0.3:
            msgs.append(gv.g_message(r, prof, op="BindRequest", mid=mid))
            mid += 1
        for _ in range(r.choice([1, 1, 2, 3, 5, 12])):
            msgs.append(gv.g_message(r, prof, op=r.choice(["SearchRequest", "ExtendedRequest"]), mid=mid))
            mid += r.choice([1, 1, 2, 1000, 1, 0])  # 0: a client that numbers two requests alike (well-formed messages all the same)
        if len(msgs) > 1 and r.random() < 0.15 and msgs[-1][0] != "BindRequest":
            msgs.append(msgs[-1])  # the very same request PDU twice in a row
        return {"role": role, "setup": [], "msgs": msgs}
    # client
    if r.random() < 0.2:
        setup = [("bind",)]
        code = r.choice([0, 49, 14, 7])
        return {"role": role, "setup": setup, "msgs": [("BindResponse", 1, ((code, "", gv.g_text(r, prof), None), gv.g_opt(r, lambda: gv.g_bytes(r, prof))), gv.g_controls(r, prof))]}
    k = r.choice([1, 2, 3, 5])
    setup = [r.choice([("search",), ("extended",)]) for _ in range(k)]
    per_op = []
    for i, s in enumerate(setup):
        mid = i + 1
        if s[0] == "search":
            seq = []
            for _ in range(r.choice([0, 1, 2, 4])):
                op = r.choice(["SearchResultEntry", "SearchResultEntry", "SearchResultReference"])
                seq.append(gv.g_message(r, prof, op=op, mid=mid))
            if r.random() < 0.85:
                seq.append(gv.g_message(r, prof, op="SearchResultDone", mid=mid))
            per_op.append(seq)
        else:
            m = gv.g_message(r, prof, op="ExtendedResponse", mid=mid)
            if m[2][1] == gv.NOTICE_OID:
                m = (m[0], m[1], (m[2][0], None, m[2][2]), m[3])
            per_op.append([m] if r.random() < 0.9 else [])
    if big:
        attrs = (("jpegPhoto", (r.randbytes(16) + b"\x00" * 70000,)),)
        per_op[0] = [("SearchResultEntry", 1, ("cn=big", attrs), ())] if setup[0][0] == "search" else per_op[0]
    # interleave preserving per-op order
    msgs = []
    idx = [0] * len(per_op)
    live = [i for i in range(len(per_op)) if per_op[i]]
    while live:
        i = r.choice(live)
        msgs.append(per_op[i][idx[i]])
        idx[i] += 1
        if idx[i] == len(per_op[i]):
            live.remove(i)
    if not msgs:
        msgs = [("ExtendedResponse", 1, ((0, "", "", None), None, None), ())]
        setup = [("extended",)]
    if r.random() < 0.2:
        # the very same PDU twice in a row (a server may return two identical entries / references for one search)
        rep = [j for j, m in enumerate(msgs) if m[0] in ("SearchResultEntry", "SearchResultReference")]
        if rep:
            j = r.choice(rep)
            msgs[j:j] = [msgs[j]] * r.choice([1, 1, 3])
    return {"role": role, "setup": setup, "msgs": msgs}


def encode_stream(msgs, r, alt):
    """Reference encodings; alt=True: valid non-minimal long length forms at random nodes (the 30 84 00 00 xx xx style
    Active Directory writes), so that cuts can fall inside padded length octets."""
    if not alt:
        return [rfc4511.encode(a) for a in msgs]
    from vf.props.c04 import _lenform, _ser, all_nodes

    out = []
    for a in msgs:
        root = rfc4511.Enc().message(a)
        for n, d in all_nodes(root):
            if d == 0 or r.random() < 0.3:
                _lenform(n, r.choice(["L82", "L83", "L84", "Lpad", "L84"]), r)
        out.append(_ser(root))
    return out


def mk_session(sc):
    if sc["role"] == "server":
        return sl.LDAPServer()
    c = sl.LDAPClient()
    for s in sc["setup"]:
        if s[0] == "bind":
            c.bind_simple("cn=x", "pw")
        elif s[0] == "search":
            c.search_request("dc=x")
        else:
            c.extended_request("1.2.3")
    c.data_to_send()
    return c


def probes(sess, role, ids):
    """Accept/reject signature of follow-up calls on deep copies (public behaviour only)."""
    sig = []
    for i in ids:
        if role == "server":
            for meth in ("search_result_done", "extended_response", "bind_response"):
                s2 = copy.deepcopy(sess)
                try:
                    getattr(s2, meth)(i)
                    sig.append((i, meth, "ok", s2.state.name))
                except sl.LDAPError:
                    sig.append((i, meth, "LDAPError", s2.state.name))
                except Exception as e:
                    sig.append((i, meth, type(e).__name__, s2.state.name))
        else:
            for op, body in (("SearchResultDone", ((0, "", "", None),)), ("ExtendedResponse", ((0, "", "", None), None, None))):
                s2 = copy.deepcopy(sess)
                try:
                    s2.receive(rfc4511.encode((op, i, body, ())))
                    sig.append((i, op, "ok", s2.state.name))
                except sl.ProtocolError:
                    sig.append((i, op, "ProtocolError", s2.state.name))
                except Exception as e:
                    sig.append((i, op, type(e).__name__, s2.state.name))
    return sig


EDIT_CONTROL = ("1.2.3.4.5.6", False, b"edited-by-caller", None)


def edited_abs(a):
    op, mid, body, ctl = a
    ctl = tuple(ctl) + (EDIT_CONTROL,)
    if op == "SearchResultEntry":
        body = (body[0], tuple(body[1]) + (("editedByCaller", (b"x",)),))
    elif op == "SearchResultReference":
        body = (tuple(body[0]) + ("ldap://edited-by-caller/",),)
    return (op, mid, body, ctl)


def as_chunk(r, b: bytes, mode: int):
    """Returns (object passed to receive, callable scribbling over the caller's buffer afterwards)."""
    if mode == 0:
        return b, None
    ba = bytearray(b)

    def scribble():
        for i in range(len(ba)):
            ba[i] = 0xAA

    if mode == 1:
        return ba, scribble
    if mode == 2:
        return memoryview(ba), scribble
    if mode in (4, 5) and len(ba):
        # the same octets as a view of signed-char / char items (array('b'), ctypes buffers, cast views)
        return memoryview(ba).cast("b" if mode == 4 else "c"), scribble
    if mode in (4, 5):
        return memoryview(ba), scribble
    # a slice of a larger receive buffer that also holds unrelated bytes before and after (recv_into style)
    big = bytearray(b"\x30\x05\x02\x01\x07\x42\x00") + ba + bytearray(b"\x30\x05\x02\x01\x09\x42\x00stale")

    def scribble_big():
        for i in range(len(big)):
            big[i] = 0xAA

    return memoryview(big)[7 : 7 + len(ba)], scribble_big


def run_case(sc, stream: bytes, cuts, chunk_modes_seed, baseline=None):
    """Deliver stream under cuts. Returns (violations, observations)."""
    from vf.common import rng_for

    r = rng_for("c02modes", chunk_modes_seed)
    out = []
    obs = {}
    if len(cuts) % 2:
        # another connection of this process fails first (malformed input, refused message): nothing of it may linger
        for junk_role, junk in ((sl.LDAPServer, b"\x30\x06\x02\x01\x01\x63\x01\x00"), (sl.LDAPClient, b"\x30\x84\x00\x00\x00\x05\x02\x01\x07\x65\x00"),
                                (sl.LDAPServer, stream[: max(1, len(stream) // 2)] + b"\xff\xff")):
            try:
                junk_role().receive(junk)
            except sl.ProtocolError:
                obs["failed-session-before-case"] = 1
            except Exception:
                pass
    expect = list(sc["msgs"])
    sess = mk_session(sc)
    # bystander: another connection of the same process holds half a message during the whole run
    by = sl.LDAPServer()
    by_msg = rfc4511.encode(("ExtendedRequest", 4242, ("1.2.3.4", b"bystander"), ()))
    by_cut = 1 + (len(stream) % (len(by_msg) - 1))
    try:
        if by.receive(by_msg[:by_cut]):
            out.append(("bystander", "bystander returned a message from a partial delivery"))
    except Exception as e:
        out.append((f"bystander-exc:{norm_msg(e)}", f"bystander session: {type(e).__name__}: {e}"))
    returned = []
    snaps = []
    caller_edits = (chunk_modes_seed % 3 == 0) if isinstance(chunk_modes_seed, int) else (len(stream) + sum(cuts)) % 3 == 0
    kept_lists = []  # (list object returned by receive, its length and member identities at return time)
    delivered = b""
    pending_before = 0
    for ch in C.split(stream, cuts):
        mode = r.randrange(6)
        obj, scribble = as_chunk(r, ch, mode)
        if len(ch) == 0:
            obs["chunk:empty"] = obs.get("chunk:empty", 0) + 1
        units_before, off_before, _ = ber.frame_count(delivered)
        partial_before = len(delivered) - off_before
        delivered += ch
        units, off, _ = ber.frame_count(delivered)
        try:
            res = sess.receive(obj)
        except Exception as e:
            out.append((f"receive-exc:{norm_msg(e)}", f"error-free stream raised {type(e).__name__}: {e}"))
            return out, obs
        if isinstance(obj, memoryview):
            # the view is the caller's object: it must still be usable afterwards (another session may get the same one)
            try:
                obj[:0]
                len(obj)
                obs["callers-memoryview-still-usable"] = 1
            except ValueError as e:
                out.append(("callers-memoryview-released", f"after receive() the caller's memoryview raises {e}"))
                return out, obs
        if scribble:
            scribble()
            obs["chunk:bytearray-overwritten" if mode == 1 else "chunk:memoryview" if mode == 2 else "chunk:memoryview-of-signed-or-char-items" if mode in (4, 5) else "chunk:memoryview-slice-of-larger-buffer"] = 1
        kept_lists.append((res, len(res), [id(m) for m in res]))
        for m in res:
            returned.append(m)
            if caller_edits:
                # the application owns what receive returned: it adds a control (a proxy would) and an attribute / uri
                m.controls.append(av.b_control(EDIT_CONTROL))
                if isinstance(m, sl.SearchResultEntry):
                    m.attributes.append(sl.PartialAttribute("editedByCaller", [b"x"]))
                elif isinstance(m, sl.SearchResultReference):
                    m.uris.append("ldap://edited-by-caller/")
                obs["caller-edits-returned-messages"] = 1
            snaps.append(av.abstract(m))
        if len(returned) != units:
            out.append(("framing-count", f"{units} complete PDUs delivered, {len(returned)} messages returned so far"))
            return out, obs
        completed = units - units_before
        tail = len(delivered) - off
        if partial_before and completed >= 2 and tail:
            obs["call:partial-pending-completes>=2-leaves-tail"] = 1
        if tail == 0:
            obs["call:empty-residue"] = 1
    try:
        got_by = by.receive(by_msg[by_cut:])
        if len(got_by) != 1 or av.abstract(got_by[0]) != ("ExtendedRequest", 4242, ("1.2.3.4", b"bystander"), ()):
            out.append(("other-session-disturbed", f"a second session holding half a message while this stream was received then returned {[av.abstract(m) for m in got_by]}"))
        obs["bystander-session-checked"] = 1
    except Exception as e:
        out.append((f"other-session-disturbed:{type(e).__name__}", f"a second session holding half a message failed afterwards: {type(e).__name__}: {e}"))
    for lst, n0, ids0 in kept_lists:
        if len(lst) != n0 or [id(m) for m in lst] != ids0:
            out.append(("returned-list-changed-later", f"a list returned by an earlier receive call had {n0} messages and now has {len(lst)} (later deliveries rewrote it)"))
            break
    # overall equality with the originals
    if len(returned) != len(expect):
        out.append(("lost-or-duplicated", f"{len(expect)} messages sent, {len(returned)} returned"))
        return out, obs
    if caller_edits:
        expect = [edited_abs(a) for a in expect]
    for i, (m, a) in enumerate(zip(returned, expect)):
        got = av.abstract(m)
        if got != a:
            out.append(("altered-or-reordered", f"message {i}: {str(got)[:150]} != {str(a)[:150]}"))
            break
        if got != snaps[i]:
            out.append(("returned-message-mutated", f"message {i} changed after it was returned (snapshot {str(snaps[i])[:120]} now {str(got)[:120]})"))
            break
    if baseline is not None:
        b_sess, b_msgs, b_probe = baseline
        if sess.state is not b_sess.state:
            out.append(("state-differs-from-single-delivery", f"{sess.state.name} vs {b_sess.state.name}"))
        for i, (m, bm) in enumerate(zip(returned, b_msgs) if not caller_edits else ()):
            d = av.same(bm, m, f"msg[{i}]")
            if d:
                out.append(("differs-from-single-delivery", d))
                break
        ids = sorted({a[1] for a in expect} | {1, 2, 99})[:8]
        if (sum(cuts) + len(cuts)) % 4 and len(cuts) != 1:
            return out, obs  # probe comparison on a quarter of the multi-cut partitions and on all single cuts of short streams
        if len(cuts) == 1 and len(stream) > 300 and cuts[0] % 4:
            return out, obs
        p = probes(sess, sc["role"], ids)
        obs["probe:compared"] = obs.get("probe:compared", 0) + 1
        if p != b_probe:
            out.append(("probe-behaviour-differs", f"follow-up calls accepted/rejected differently: {p} vs {b_probe}"))
    return out, obs


def baseline_for(sc, stream):
    sess = mk_session(sc)
    msgs = sess.receive(stream)
    ids = sorted({a[1] for a in sc["msgs"]} | {1, 2, 99})[:8]
    return sess, msgs, probes(sess, sc["role"], ids)


def header_cuts(stream, bounds):
    cuts = []
    start = 0
    for b in bounds:
        for k in range(1, 7):
            if start + k < b:
                cuts.append(start + k)
        start = b
    return cuts


def run_shard(ctx: Ctx, acc: Acc):
    nstreams = ctx.scale(640, 4_000)
    prof = gv.SMALL
    for i in range(nstreams):
        r = ctx.rng(i)
        big = (i == 1)
        sc = g_scenario(r, gv.QUICK if i % 7 == 0 else prof, big=big)
        encs = encode_stream(sc["msgs"], r, alt=(i % 3 == 2))
        if i % 3 == 2:
            acc.count("stream:alternative-length-forms")
        stream = b"".join(encs)
        bounds = list(itertools.accumulate(len(e) for e in encs))
        try:
            base = baseline_for(sc, stream)
        except Exception as e:
            acc.violation(f"baseline-exc:{norm_msg(e)}", f"single delivery of an error-free stream raised {type(e).__name__}: {e}", {"scenario": sc, "cuts": []})
            continue
        if len(base[1]) != len(sc["msgs"]) or any(av.abstract(m) != a for m, a in zip(base[1], sc["msgs"])):
            acc.violation("baseline-differs", "single delivery does not return the original messages", {"scenario": sc, "cuts": []})
            continue
        acc.count("role:" + sc["role"])
        if big and any(len(e) > 60000 for e in encs):
            acc.count("big-entry")
        total = len(stream)
        hc = set(header_cuts(stream, bounds))
        parts = []
        if total <= 4000:
            stride = 1 if total <= 400 or ctx.thorough else max(1, total // 200)
            for c in range(0, total + 1, stride):
                parts.append(("partition:single-exhaustive", [c]))
        if total <= 120:
            lim = 1500 if ctx.thorough else 400
            pairs = list(itertools.combinations(range(0, total + 1), 2))
            if len(pairs) > lim:
                pairs = r.sample(pairs, lim)
            for a, b in pairs:
                parts.append(("partition:pairs-exhaustive", [a, b]))
        if total <= 1500:
            parts.append(("partition:bytewise", list(range(1, total))))
        for _ in range(12 if not ctx.thorough else 40):
            parts.append(("partition:random", C.g_chunking(r, total, bounds)))
        parts.append(("partition:headers", sorted(hc)))
        for c in list(hc)[:40]:
            parts.append(("partition:header-single", [c]))
        if big:
            for _ in range(6):
                parts.append(("partition:big", sorted(r.randrange(0, total) for _ in range(r.choice([1, 3, 9])))))
        for label, cuts in parts:
            acc.case()
            acc.count(label)
            inside = any(c in hc for c in cuts)
            if inside:
                acc.count("cut:inside-header")
            if len(cuts) >= 2 or inside:
                acc.nontrivial(stream if total < 5000 else stream[:5000], tuple(cuts))
            vio, obs = run_case(sc, stream, cuts, f"{ctx.seed}:{ctx.shard}:{i}:{label}:{cuts[:4]}", base)
            for k, v in obs.items():
                acc.count(k, v)
            for key, what in vio:
                acc.violation(key, what, {"scenario": sc, "cuts": cuts, "modes_seed": f"{ctx.seed}:{ctx.shard}:{i}:{label}:{cuts[:4]}",
                                          "encodings": encs if total < 20000 else None})
        if i < 2 and not big:
            acc.sample({"role": sc["role"], "messages": len(encs), "stream": stream[:120], "example_cuts": parts[min(5, len(parts) - 1)][1][:10]})
    bad_streams(ctx, acc)


def run_bad_case(sc, encs, bad, cuts):
    """A stream whose message number `bad` is one the session must refuse (a response for an id that is not in progress,
    or a message of the wrong direction). However the stream is cut, every receive call before the one that completes
    that message's PDU returns normally (exactly the complete earlier messages) and that call raises ProtocolError."""
    out = []
    stream = b"".join(encs)
    ends = list(itertools.accumulate(len(e) for e in encs))
    bad_end = ends[bad]
    sess = mk_session(sc)
    delivered = 0
    returned = []
    for ch in C.split(stream, cuts):
        delivered += len(ch)
        try:
            res = sess.receive(ch)
        except sl.ProtocolError:
            if delivered < bad_end:
                out.append(("verdict-depends-on-chunking:rejected-early", f"ProtocolError after {delivered} bytes; the offending message only completes at {bad_end}"))
            elif sess.state.name != "CLOSED":
                out.append(("verdict-depends-on-chunking:not-closed", f"state {sess.state.name} after the protocol error"))
            return out
        except Exception as e:
            out.append((f"receive-exc:{norm_msg(e)}", f"{type(e).__name__}: {e}"))
            return out
        returned += [av.abstract(m) for m in res]
        if delivered >= bad_end:
            out.append(("verdict-depends-on-chunking:accepted", f"a message the session must refuse (message {bad} of the stream: {str(sc['msgs'][bad])[:100]}) was accepted when the stream was cut at {list(cuts)[:8]}; state {sess.state.name}"))
            return out
        units = sum(1 for e in ends if e <= delivered)
        if returned != list(sc["msgs"][:units]):
            out.append(("lost-or-duplicated:before-refused-message", f"{units} complete PDUs delivered, returned {len(returned)}"))
            return out
    return out


def bad_streams(ctx, acc):
    n = ctx.scale(160, 1500)
    for i in range(n):
        r = ctx.rng("bad", i)
        sc = g_scenario(r, gv.SMALL)
        msgs = list(sc["msgs"])
        if sc["role"] == "client":
            nsetup = len(sc["setup"])
            kind = r.choice(["unknown-id", "unknown-id", "request", "completed"])
            if kind == "unknown-id":
                badmsg = gv.g_message(r, gv.SMALL, op=r.choice(["SearchResultEntry", "SearchResultEntry", "SearchResultReference", "SearchResultDone", "ExtendedResponse"]), mid=nsetup + r.choice([1, 5, 1000]))
                if badmsg[0] == "ExtendedResponse" and badmsg[2][1] == gv.NOTICE_OID:
                    continue
                k = r.randrange(0, len(msgs) + 1)
            elif kind == "request":
                badmsg = gv.g_message(r, gv.SMALL, op=r.choice(["SearchRequest", "ExtendedRequest", "BindRequest"]), mid=1)
                k = r.randrange(0, len(msgs) + 1)
            else:
                done = [j for j, m in enumerate(msgs) if m[0] in ("SearchResultDone", "ExtendedResponse", "BindResponse") and not (m[0] == "BindResponse" and m[2][0][0] == 14)]
                if not done:
                    continue
                j = r.choice(done)
                badmsg = (r.choice(["SearchResultEntry", "SearchResultDone"]), msgs[j][1], None, ())
                badmsg = gv.g_message(r, gv.SMALL, op=badmsg[0], mid=msgs[j][1])
                k = r.randrange(j + 1, len(msgs) + 1)
        else:
            kind = "response"
            badmsg = gv.g_message(r, gv.SMALL, op=r.choice(["SearchResultDone", "SearchResultEntry", "BindResponse"]), mid=r.choice([1, 2, 50]))
            k = r.randrange(0, len(msgs) + 1)
            if any(m[0] == "BindRequest" for m in msgs[:k]):
                continue  # while BINDING the server model differs; keep this part about the refused message only
        msgs.insert(k, badmsg)
        # after a bind request the client is BINDING: later non-bind responses are judged by C08/C09; keep streams simple
        if sc["role"] == "client" and sc["setup"] and sc["setup"][0][0] == "bind":
            continue
        sc2 = {"role": sc["role"], "setup": sc["setup"], "msgs": msgs}
        encs = [rfc4511.encode(a) for a in msgs]
        total = sum(len(e) for e in encs)
        bounds = list(itertools.accumulate(len(e) for e in encs))
        parts = [[]] + [[c] for c in range(0, total + 1, max(1, total // 120))] + [list(bounds)] + [list(range(1, total))][: 1 if total <= 1500 else 0]
        for _ in range(10):
            parts.append(C.g_chunking(r, total, bounds))
        for cuts in parts:
            acc.case()
            acc.count("part:stream-with-refused-message")
            acc.count("refused-kind:" + kind)
            acc.nontrivial("bad", i, tuple(cuts))
            for key, what in run_bad_case(sc2, encs, k, cuts):
                acc.violation(key, what, {"scenario": sc2, "cuts": list(cuts), "bad": k})


def replay(w):
    if "bad" in w:
        sc = w["scenario"]
        sc = {"role": sc["role"], "setup": [tuple(s) for s in sc["setup"]], "msgs": [to_tuple(m) for m in sc["msgs"]]}
        return run_bad_case(sc, [rfc4511.encode(a) for a in sc["msgs"]], w["bad"], list(w["cuts"]))
    sc = w["scenario"]
    sc = {"role": sc["role"], "setup": [tuple(s) for s in sc["setup"]], "msgs": [to_tuple(m) for m in sc["msgs"]]}
    stream = b"".join(bytes(e) for e in w["encodings"]) if w.get("encodings") else b"".join(rfc4511.encode(a) for a in sc["msgs"])
    try:
        base = baseline_for(sc, stream)
    except Exception as e:
        return [(f"baseline-exc:{norm_msg(e)}", str(e))]
    vio, obs = run_case(sc, stream, list(w["cuts"]), w.get("modes_seed", "replay"), base)
    return vio
