"""C05 - receiving arbitrary bytes either yields messages or fails closed (fault enumeration at receive)."""
from __future__ import annotations

from vf import absval as av
from vf import sess as S
from vf.common import call_with_headroom, Acc, CpuTimeout, Ctx, NOTICE_OID, cpu_limit, norm_msg
from vf.gen import corrupt as C
from vf.gen import values as gv
from vf.ref import ber, rfc4511

sl = av.sl
LEVEL = "fault_enumeration"
RULE = (
    "bytes delivered to client and server sessions in 4 prior histories under random chunkings: (a) random strings, (b) every node of "
    "valid messages x 20 corruption operators (lengths, tags, content, structure; with and without ancestor-length fix-up), (c) every "
    "single-byte substitution (255 values) at every offset of short messages, (d) every truncation followed by further bytes, "
    "(e) filter/sequence nesting 10..20000 levels, (k) text fields of notices, results, bind and extended names that are not UTF-8; non-trivial = input that the strict reference decoder does not accept as a "
    "message stream; distinct by hash of (role, history, bytes, cuts)"
)
ASSUMPTIONS = [
    "a well-formed notice of disconnection = ExtendedResponse, messageID 0, responseName 1.3.6.1.4.1.1466.20036, no responseValue (RFC 4511 4.4.1)",
    "worker runs at CPython's default recursion limit (1000), recorded in evidence",
]
ROLES = ["client", "server"]


def shards(tier):
    return 16


def gates(c, tier):
    out = []
    for k in ("outcome:messages", "outcome:wait", "outcome:ProtocolError", "part:random", "part:operator", "part:bytesub", "part:truncate", "part:valid-into-history", "part:large-bytewise",
              "part:nest", "part:blank-diagnostic", "part:not-utf8-text", "part:very-large-delivery", "part:custom-type-refuses", "part:long-non-ascii-diagnostic", "pending-output-before-input", "part:low-stack-headroom", "post-error-receive-refused", "post-error-send-refused", "response:notice-checked", "response:unbind-checked"):
        if c.get(k, 0) == 0:
            out.append(f"never observed: {k}")
    cells = [k for k in c if k.startswith("cell:")]
    want = len(C.ALL_OPS) * 6
    if len(cells) < 0.9 * want * (1 if tier == "thorough" else 0.8):
        out.append(f"operator x node-type matrix too sparse: {len(cells)} cells")
    return out


def _check_response(role, e):
    """e.response must be a well-formed notice (server) / unbind (client)."""
    out = []
    resp = e.response
    if resp is None:
        return out, None
    if not isinstance(resp, (bytes, bytearray)):
        return [("bad-response-type", f"e.response is {type(resp).__name__}")], None
    if role == "server":
        try:
            m = rfc4511.decode_strict(bytes(resp))
        except rfc4511.RefDecodeError as ex:
            return [("bad-notice:undecodable", f"notice of disconnection attached to the error is not valid RFC 4511: {ex}")], "notice"
        ok = m[0] == "ExtendedResponse" and m[1] == 0 and m[2][1] == NOTICE_OID and m[2][2] is None
        if not ok:
            out.append(("bad-notice:fields", f"attached bytes are not a notice of disconnection: {str(m)[:200]}"))
        return out, "notice"
    try:
        m = rfc4511.decode_strict(bytes(resp))
        if m[0] != "UnbindRequest":
            out.append(("bad-unbind:kind", f"client error carries {m[0]} instead of an unbind"))
    except rfc4511.RefDecodeError as ex:
        from vf.props.c03 import _only_unbind_constructed

        if _only_unbind_constructed(bytes(resp), ("UnbindRequest", 0, (), ())):
            out.append(("unbind-constructed-bit", "unbind attached to a client protocol error is 62 00 (constructed); RFC 4511: [APPLICATION 2] NULL is primitive (42 00)"))
        else:
            out.append(("bad-unbind:undecodable", f"unbind attached to the error is not valid RFC 4511: {ex}"))
    return out, "unbind"


PROBE = rfc4511.encode(("ExtendedRequest", 77, ("1.2.3", None), ()))


def run_case(role, history, data: bytes, cuts, headroom=None):
    """Returns (violations, observations dict)."""
    obs = {}
    out = []
    sess, ip = S.session_with(role, history)
    chunks = C.split(data, cuts)
    got_msgs = 0
    if (len(data) + len(cuts)) % 2 == 0:
        # something is queued for sending (and partly drained) when the input arrives: the bytes attached to an error
        # must still be exactly one notice / unbind
        try:
            if role == "client":
                sess.extended_request("1.2.840.113556.1.4.9999", b"queued-before-the-input")
            else:
                mid0 = sorted(ip)[0] if ip else 1
                if ip.get(mid0) == "search":
                    sess.search_result_entry(mid0, "cn=queued-before-the-input", [])
                elif ip.get(mid0) == "bind":
                    sess.bind_response(mid0, result_code=sl.LDAPResultCode.SASL_BIND_IN_PROGRESS, sasl_creds=b"queued")
                else:
                    sess.extended_response(mid0, value=b"queued-before-the-input")
            if len(data) % 4 == 0:
                sess.data_to_send(3)
            obs["pending-output-before-input"] = 1
        except sl.LDAPError:
            pass
    for ci, ch in enumerate(chunks):
        # the caller may hand over bytes, a bytearray or a memoryview (and reuse its buffer afterwards)
        kind = (len(data) + ci) % 3
        buf = bytearray(ch) if kind else None
        arg = ch if kind == 0 else (buf if kind == 1 else memoryview(buf))
        try:
            with cpu_limit(10):
                # headroom: the application calls receive from deep inside its own recursion
                res = sess.receive(arg) if not headroom else call_with_headroom(headroom, lambda: sess.receive(arg))
            if buf is not None:
                buf[:] = b"\xAA" * len(buf)
        except CpuTimeout:
            out.append(("no-return-within-cpu-budget", f"receive of a {len(ch)}-byte chunk did not return within 10 CPU-seconds"))
            break
        except sl.ProtocolError as e:
            obs["outcome:ProtocolError"] = 1
            if sess.state is not S.ST.CLOSED:
                out.append((f"not-closed-after-protocol-error:{sess.state.name}", f"state is {sess.state.name} after ProtocolError ({e})"))
            vio, kind = _check_response(role, e)
            out += vio
            if kind:
                obs[f"response:{kind}-checked"] = 1
            else:
                obs["response:none"] = 1
            for probe in (b"", PROBE, b"\x30"):
                try:
                    r2 = sess.receive(probe)
                    out.append(("accepts-input-after-error", f"receive({probe.hex()!r}) returned {r2!r} after a protocol error"))
                except sl.ProtocolError:
                    obs["post-error-receive-refused"] = obs.get("post-error-receive-refused", 0) + 1
                except Exception as e2:
                    out.append((f"post-error-escape:{type(e2).__name__}", f"receive after error raised {type(e2).__name__}: {e2}"))
            if sess.state is not S.ST.CLOSED:
                out.append(("reopened-after-error", f"state {sess.state.name} after refused input"))
            # a closed session refuses every send call and queues nothing
            pending = sess.data_to_send()
            calls = ([("bind_simple", lambda: sess.bind_simple("cn=a", "pw")), ("search_request", lambda: sess.search_request("dc=x")),
                      ("extended_request", lambda: sess.extended_request("1.2")), ("unbind", sess.unbind)] if role == "client" else
                     [("bind_response", lambda: sess.bind_response(1)), ("extended_response", lambda: sess.extended_response(1)),
                      ("search_result_done", lambda: sess.search_result_done(1)), ("unbind", sess.unbind)])
            for name, fn in calls:
                try:
                    fn()
                    out.append((f"send-accepted-after-error:{name}", f"{name}() succeeded on a session closed by a protocol error"))
                except sl.LDAPError:
                    obs["post-error-send-refused"] = obs.get("post-error-send-refused", 0) + 1
                except Exception as e3:
                    out.append((f"post-error-send-escape:{name}:{type(e3).__name__}", f"{name}() after a protocol error raised {type(e3).__name__}: {e3}"))
                extra = sess.data_to_send()
                if extra:
                    out.append((f"bytes-queued-after-error:{name}", f"{name}() on the closed session queued {len(extra)} bytes"))
                if sess.state is not S.ST.CLOSED:
                    out.append((f"reopened-by-send:{name}", f"{name}() moved the closed session to {sess.state.name}"))
                    break
            break
        except RecursionError as e:
            out.append(("escape:RecursionError", f"receive raised RecursionError (state {sess.state.name})"))
            break
        except Exception as e:
            out.append((f"escape:{type(e).__name__}", f"receive raised {type(e).__name__}: {e} (state {sess.state.name})"))
            break
        else:
            if not isinstance(res, list) or not all(isinstance(m, sl.LDAPMessage) for m in res):
                out.append(("bad-return", f"receive returned {type(res).__name__}"))
            got_msgs += len(res)
    else:
        obs["outcome:messages" if got_msgs else "outcome:wait"] = 1
    return out, obs


def _strict_stream_ok(data: bytes) -> bool:
    try:
        msgs, rest = rfc4511.decode_stream(data)
        return not rest and bool(msgs)
    except (rfc4511.RefDecodeError, RecursionError):
        return False


class StopShard(Exception):
    pass


def run_shard(ctx: Ctx, acc: Acc):
    try:
        _run_shard(ctx, acc)
    except StopShard:
        acc.count("shard-stopped-early-after-hangs")


def _run_shard(ctx: Ctx, acc: Acc):
    n = ctx.scale(24_000, 700_000)

    def do(part, role, history, data, cuts, tag=None, headroom=None):
        acc.case()
        acc.count("part:" + part)
        vio, obs = run_case(role, history, data, cuts, headroom)
        for k, v in obs.items():
            acc.count(k, v)
        if tag:
            acc.count(tag)
        if len(data) <= 4096 and not _strict_stream_ok(data):
            acc.nontrivial(role, history, data, tuple(cuts))
        elif len(data) > 4096:
            acc.nontrivial(role, history, len(data), data[:64], tuple(cuts))
        for key, what in vio:
            acc.violation(key, what + (f" [called with ~{headroom} frames of stack headroom]" if headroom else ""), {"role": role, "history": history, "data": data, "cuts": list(cuts), "part": part, "headroom": headroom})
            if key == "no-return-within-cpu-budget":
                acc.count("no-return")
        if acc.counters.get("no-return", 0) >= 3:
            raise StopShard()

    # (a) random byte strings
    for i in range(n // 4):
        r = ctx.rng("a", i)
        ln = r.choice([0, 1, 2, 3, 5, 8, 16, 40, 200])
        mode = r.randrange(3)
        if mode == 0:
            data = r.randbytes(ln)
        elif mode == 1:
            data = bytes(r.choice(b"\x30\x02\x01\x00\x04\x60\x61\x63\x64\x65\x73\x77\x78\x80\x81\x84\xa0\xa3\xff\x0a\x05") for _ in range(ln))
        else:
            data = b"\x30" + bytes([r.choice([ln, ln + 1, max(0, ln - 1), 0x81, 0x84])]) + r.randbytes(ln)
        do("random", r.choice(ROLES), r.choice(S.HISTORIES), data, C.g_chunking(r, len(data)))
    # (g) well-formed messages of every kind and small ids into every prior history of both roles (whatever an earlier
    # refused or completed call left behind must not turn a later well-formed message into a foreign exception)
    k = 0
    for hist in S.HISTORIES:
        for role in ROLES:
            for op in gv.OPS:
                for mid in (0, 1, 2, 3, 4):
                    r = ctx.rng("g", k)
                    k += 1
                    if k % ctx.nshards != ctx.shard:
                        continue
                    data = rfc4511.encode(gv.g_message(r, gv.SMALL, op=op, mid=mid))
                    if r.random() < 0.5:
                        data += rfc4511.encode(gv.g_message(r, gv.SMALL, op=r.choice(gv.OPS), mid=r.choice([1, 2, 3])))
                    do("valid-into-history", role, hist, data, C.g_chunking(r, len(data)))
    # large well-formed messages (long-form lengths at several levels), byte by byte and in random pieces
    for j in range(3):
        r = ctx.rng("big", j)
        for op in ("SearchResultEntry", "ExtendedRequest", "SearchRequest", "BindResponse"):
            body = {"SearchResultEntry": ("cn=" + "x" * 200, (("a" * 130, (b"v" * 300, b"w" * 128)),)), "ExtendedRequest": ("1.2.3", b"z" * r.choice([256, 300, 70000])),
                    "SearchRequest": ("dc=" + "y" * 300, 2, 0, 0, 0, False, ("eq", "cn", b"q" * 256), ("cn",) * 60), "BindResponse": ((0, "", "d" * 400, None), b"s" * 200)}[op]
            data = rfc4511.encode((op, 1, body, ()))
            role = "server" if op in rfc4511.REQUESTS else "client"
            hist = "opened-ops" if op != "BindResponse" else "binding"
            if len(data) < 2000:
                do("large-bytewise", role, hist, data, list(range(1, len(data))))
            do("large-bytewise", role, hist, data, sorted(r.randrange(1, 12) for _ in range(3)))
    # (b) operators at every node of valid messages
    nb = max(1, n // 400)
    for j in range(nb):
        r = ctx.rng("b", j)
        a = gv.g_message(r, gv.SMALL, op=gv.OPS[(j + ctx.shard) % 9], mid=r.choice([1, 2, 3, 7]))
        data = rfc4511.encode(a)
        root, nodes = C.nodes_of(data)
        tail = rfc4511.encode(gv.g_message(r, gv.SMALL, op="ExtendedRequest", mid=9)) if r.random() < 0.5 else b""
        for k in range(len(nodes)):
            nt = C.node_type(nodes[k][0])
            for op in C.ALL_OPS:
                for fixup in (True, False):
                    if op in C.NODE_OPS and not fixup:
                        continue
                    mut = C.apply(data, root, nodes, k, op, r, fixup)
                    if mut is None:
                        continue
                    role = "server" if a[0] in rfc4511.REQUESTS else "client"
                    if r.random() < 0.25:
                        role = r.choice(ROLES)
                    full = mut + tail
                    do("operator", role, r.choice(S.HISTORIES), full, C.g_chunking(r, len(full), [len(mut)]), tag=f"cell:{op}|{nt}")
        if j == 0:
            acc.sample({"valid": data, "example_mutation": C.apply(data, root, nodes, min(2, len(nodes) - 1), "len=0", r, True)})
    # (c) exhaustive single-byte substitution of short messages
    for j in range(2 if not ctx.thorough else 12):
        r = ctx.rng("c", j)
        for _ in range(50):
            a = gv.g_message(r, gv.SMALL, op=gv.OPS[(j * 5 + ctx.shard) % 9], mid=1)
            data = rfc4511.encode(a)
            if len(data) <= (48 if not ctx.thorough else 90):
                break
        else:
            continue
        role = "server" if a[0] in rfc4511.REQUESTS else "client"
        hist = "opened-ops" if a[0] not in ("BindRequest", "BindResponse") else ("binding" if role == "client" else "fresh")
        for off in range(len(data)):
            for val in range(256):
                if val == data[off]:
                    continue
                do("bytesub", role, hist, data[:off] + bytes([val]) + data[off + 1 :], [])
    # (d) every truncation followed by further bytes
    for j in range(max(1, n // 3000)):
        r = ctx.rng("d", j)
        a = gv.g_message(r, gv.SMALL, mid=r.choice([1, 2]))
        data = rfc4511.encode(a)
        nxt = rfc4511.encode(gv.g_message(r, gv.SMALL, mid=3))
        role = "server" if a[0] in rfc4511.REQUESTS else "client"
        for cut in range(len(data)):
            full = data[:cut] + nxt
            do("truncate", role, r.choice(S.HISTORIES), full, C.g_chunking(r, len(full), [cut]))
    # (i) very large deliveries: a 17 MiB and a 33 MiB entry, complete and cut short, in two pieces
    if ctx.shard in (0, 1):
        size = (17 if ctx.shard == 0 else 33) * 1024 * 1024
        big = rfc4511.encode(("SearchResultEntry", 1, ("cn=big", (("jpegPhoto", (b"\x00" * size,)),)), ()))
        for data in (big, big[:-7]):
            do("very-large-delivery", "client", "opened-ops", data, [len(data) // 2])
        big = rfc4511.encode(("ExtendedRequest", 77, ("1.2.3", b"\x01" * size), ()))
        do("very-large-delivery", "server", "opened-ops", big[:-3], [9, len(big) // 2])
    # (g) a registered custom control type that refuses a value (the way library types do, or with ProtocolError), in the
    # first / a later PDU of a delivery
    for j, exc_name in enumerate(["ValueError", "NotImplementedError", "ProtocolError", "RecursionError"]):
        if j % ctx.nshards != ctx.shard % 4:
            continue
        r = ctx.rng("g", j)
        for role in ROLES:
            ok_ctl = (S.RAISING_CONTROL_OID, False, b"fine", None)
            bad_ctl = (S.RAISING_CONTROL_OID, True, b"!refuse", None)
            mk = (lambda c, i: rfc4511.encode(("ExtendedRequest", 50 + i, ("1.2.3", None), (c,)))) if role == "server" else (lambda c, i: rfc4511.encode(("SearchResultEntry", 1, ("cn=e%d" % i, ()), (c,))))
            for data in (mk(bad_ctl, 0), mk(ok_ctl, 0) + mk(bad_ctl, 1), mk(ok_ctl, 0) + mk(ok_ctl, 1) + mk(bad_ctl, 2) + mk(ok_ctl, 3)):
                for cuts in ([], [len(data) // 2], [5, len(data) - 3]):
                    do("custom-type-refuses", role, "custom-raising:" + exc_name, data, cuts)
    # (h) peer-supplied text that ends up in error messages / the notice: long and not ASCII, at every alignment
    for j, size in enumerate([200, 300, 600, 1100, 2100, 4200, 8300, 66000]):
        if j % ctx.nshards != ctx.shard % 8:
            continue
        for ch in ("\u00e9", "\u4e2d", "\U0001f600"):
            for off in range(4):
                diag = "a" * off + ch * (size // len(ch.encode("utf-8")))
                for role in ROLES:
                    data = rfc4511.encode(("ExtendedResponse", 0, ((52, "", diag, None), NOTICE_OID, None), ()))
                    do("long-non-ascii-diagnostic", role, "opened-ops", data, [])
                    data = rfc4511.encode(("SearchResultDone", 999, ((80, diag[:300], diag, None),), ()))
                    do("long-non-ascii-diagnostic", role, "opened-ops", data, [])
    # (j) a notice of disconnection / refused result whose diagnostic text is blank in various ways
    if ctx.shard % 4 == 1:
        for diag in (" ", "  ", "\x00", " \x00 ", "\n", "\r\n", "\t", "\u00a0", "\u2028", "\x00\x00\x00"):
            for role in ROLES:
                for hist in ("fresh", "opened-ops", "binding"):
                    do("blank-diagnostic", role, hist, rfc4511.encode(("ExtendedResponse", 0, ((52, "", diag, None), NOTICE_OID, None), ())), [])
                    do("blank-diagnostic", role, hist, rfc4511.encode(("ExtendedResponse", 0, ((52, diag, diag, (diag,)), NOTICE_OID, diag.encode()), ())), [])
    # (k) text fields that are not UTF-8 (a server answering in its code page) in messages whose text the session looks at or
    # passes on: the notice of disconnection, final results, bind names, request names (round-18 change C05-25)
    if ctx.shard % 4 == 2:
        for bad in (b"\xff\xfe\x80\xc3", b"\xe9t\xe9!", b"\xc3\x28ab", b"\xed\xa0\x80."):
            ph = "Z" * len(bad)
            for hist in ("fresh", "opened-ops", "binding"):
                for role in ROLES:
                    for a in (("ExtendedResponse", 0, ((52, "", ph, None), NOTICE_OID, None), ()),
                              ("ExtendedResponse", 0, ((52, ph, "", None), NOTICE_OID, None), ()),
                              ("ExtendedResponse", 0, ((52, "", "x", (ph,)), NOTICE_OID, None), ()),
                              ("ExtendedResponse", 1, ((0, "", ph, None), ph, None), ()),
                              ("BindResponse", 1, ((49, ph, ph, None), None), ()),
                              ("SearchResultDone", 1, ((32, "", ph, None),), ()),
                              ("BindRequest", 1, (3, ph, ("simple", "pw")), ()),
                              ("ExtendedRequest", 2, (ph, None), ())):
                        data = rfc4511.encode(a)
                        assert ph.encode() in data
                        do("not-utf8-text", role, hist, data.replace(ph.encode(), bad), [])
    # (f) moderately nested input received with little stack headroom left by the application
    for j in range(24):
        if j % ctx.nshards != ctx.shard:
            continue
        r = ctx.rng("f", j)
        for _ in range(6):
            d = r.choice([5, 20, 60, 100, 150, 250])
            h = r.choice([60, 100, 200, 400])
            if r.random() < 0.7:
                data = C.nested_filter_search(d, r.choice(["not", "and", "or"]))
                role = r.choice(["server", "server", "client"])
            else:
                data = C.nested_sequences(d, r.choice(["envelope", "controls", "trailing"]))
                role = r.choice(ROLES)
            do("low-stack-headroom", role, r.choice(["fresh", "opened-ops"]), data, [], headroom=h)
    # (e) nesting
    depths = [10, 100, 300, 480, 490, 495, 500, 600, 990, 1000, 1100, 3000, 20000]
    for di, d in enumerate(depths):
        if di % ctx.nshards != ctx.shard:
            continue
        r = ctx.rng("e", d)
        for kind in ("not", "and", "or"):
            data = C.nested_filter_search(d, kind)
            for hist in ("fresh", "opened-ops"):
                do("nest", "server", hist, data, C.g_chunking(r, len(data)) if d <= 600 else [], tag=f"nest-filter:{d}")
            do("nest", "client", "opened-ops", data, [], tag=f"nest-filter:{d}")
        for where in ("envelope", "controls", "trailing"):
            data = C.nested_sequences(d, where)
            do("nest", r.choice(ROLES), "fresh", data, [], tag=f"nest-seq:{d}")


def replay(w):
    if "data_gen" in w:  # generated witness (too large to store literally)
        data = eval(w["data_gen"], {"nested_filter_search": C.nested_filter_search, "nested_sequences": C.nested_sequences})
    else:
        data = bytes(w["data"])
    vio, obs = run_case(w["role"], w["history"], data, list(w["cuts"]), w.get("headroom"))
    return vio
