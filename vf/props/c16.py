"""C16 - schema definitions survive conversion to text and back."""
from __future__ import annotations

from vf import absval as av
from vf.common import Acc, CpuTimeout, Ctx, cpu_limit, norm_msg
from vf.gen import schema as gs

sl = av.sl
LEVEL = "exploration"
RULE = (
    "valid ObjectClass / AttributeType / DITContentRule descriptions: numeric OIDs, 0-4 descriptor names, description None or non-empty "
    "Unicode weighted to ' \\ | $ ( ) { } spaces, newline, the literal texts \\27 \\5c \\7c, non-BMP; every flag/kind/usage; OID lists of "
    "length 0/1/n; syntax with and without length (0..2^31); extensions with keys over [A-Za-z_-] and value lists of length 0/1/n; oracle: "
    "from_string(str(d)) == d under a 3 CPU-second watchdog; non-trivial = description or extension value with a special character; "
    "distinct by hash of the definition"
)
ASSUMPTIONS = ["a parse of a <= 1 KB text that exceeds 3 CPU-seconds counts as not yielding an equal definition (DESIGN 7.7)"]
CHARS = ["'", "\\", "|", "$", "(", ")", "{", "}", "\n"]


def shards(tier):
    return 16


def gates(c, tier):
    out = []
    for k in ("kind:oc", "kind:at", "kind:dcr", "desc:present", "desc:absent", "ext:present", "ext:absent", "ext:empty-list", "ext:multi", "names:0", "names:1", "names:n",
              "syntax:len", "syntax:nolen", "syntax:absent"):
        if c.get(k, 0) == 0:
            out.append(f"never generated {k}")
    for ch in CHARS:
        if c.get("char:" + repr(ch), 0) == 0:
            out.append(f"special character {ch!r} never in a text")
    return out


def check_one(kind, d, budget=3):
    obj = gs.to_obj(sl, kind, d)
    try:
        s = str(obj)
    except Exception as e:
        return [(f"str-exc:{norm_msg(e)}", f"{type(e).__name__}: {e}")]
    try:
        with cpu_limit(budget):
            back = gs.cls_of(sl, kind).from_string(s)
    except CpuTimeout:
        return [("reparse-cpu-timeout", f"from_string(str(d)) did not return within 3 CPU-seconds ({len(s)} chars): {s[:100]!r}")]
    except Exception as e:
        feat = "text-with-pipe" if any("|" in t for t in ([d["description"] or ""] + [v for vs in d["extensions"].values() for v in vs])) else "other"
        return [(f"reparse-exc:{feat}:{norm_msg(e, 30)}", f"from_string(str(d)) raised {type(e).__name__}: {e}; text {s[:140]!r}")]
    try:
        if str(obj) != s or str(back) != s and not av.differs(back, obj):
            return [("str-not-repeatable", f"text form not stable: {s[:100]!r}")]
        if av.differs(gs.cls_of(sl, kind).from_string(s), back):
            return [("parse-not-repeatable", f"parsing {s[:100]!r} twice gives different definitions")]
    except Exception as e:
        return [(f"second-use-exc:{norm_msg(e, 30)}", f"second str()/from_string raised {type(e).__name__}: {e}")]
    if not av.differs(back, obj):
        # a parsed definition is the caller's own value: editing its lists must not influence later parses
        try:
            for fld in ("names", "must", "may", "super_types", "aux", "never"):
                lst = getattr(back, fld, None)
                if isinstance(lst, list):
                    lst.append("edited-by-caller")
            for v in back.extensions.values():
                v.append("edited-by-caller")
            again = gs.cls_of(sl, kind).from_string(s)
            if av.differs(again, obj):
                fld = next((k for k in d if gs.from_obj(kind, again).get(k) != d[k]), "?")
                return [(f"parse-result-shared-with-earlier-parse:{fld}", f"after the caller edited a previously parsed definition, parsing {s[:80]!r} again gives field {fld} = {gs.from_obj(kind, again).get(fld)!r}")]
        except Exception as e:
            return [(f"second-use-exc:{norm_msg(e, 30)}", f"{type(e).__name__}: {e}")]
        return []
    if av.differs(back, obj):
        a, b = gs.from_obj(kind, back), d
        fld = next((k for k in b if a.get(k) != b[k]), "?")
        return [(f"roundtrip-differs:{kind}:{fld}", f"field {fld}: {a.get(fld)!r} != {b.get(fld)!r}; text {s[:140]!r}")]
    return []


def run_shard(ctx: Ctx, acc: Acc):
    n = ctx.scale(80_000, 2_000_000)
    for i in range(n):
        r = ctx.rng(i)
        kind, d = gs.g_def(r, gs.KINDS[i % 3])
        acc.case()
        acc.count("kind:" + kind)
        acc.count("desc:present" if d["description"] is not None else "desc:absent")
        acc.count("ext:present" if d["extensions"] else "ext:absent")
        if any(len(v) == 0 for v in d["extensions"].values()):
            acc.count("ext:empty-list")
        if any(len(v) > 1 for v in d["extensions"].values()):
            acc.count("ext:multi")
        acc.count("names:" + ("0" if not d["names"] else "1" if len(d["names"]) == 1 else "n"))
        if kind == "at":
            acc.count("syntax:" + ("absent" if d["syntax"] is None else "len" if d["syntax_length"] is not None else "nolen"))
        texts = ([d["description"]] if d["description"] else []) + [v for vs in d["extensions"].values() for v in vs]
        for ch in CHARS:
            if any(ch in t for t in texts):
                acc.count("char:" + repr(ch))
        if gs.has_special(d):
            acc.nontrivial(kind, sorted(d.items(), key=lambda kv: kv[0]).__repr__())
        if i < 3:
            acc.sample({"kind": kind, "definition": d, "text": str(gs.to_obj(sl, kind, d))})
        if i % 2:
            # a refused text first (truncated / quote removed): nothing of the failure may linger
            try:
                t0 = str(gs.to_obj(sl, kind, d))
                for broken in (t0[:-1], t0.replace("'", "", 1)):
                    try:
                        with cpu_limit(3):
                            gs.cls_of(sl, kind).from_string(broken)
                    except (ValueError, CpuTimeout):
                        acc.count("malformed-inputs-interleaved")
            except Exception:
                pass
        for key, what in check_one(kind, d):
            acc.violation(key, what, {"kind": kind, "definition": d})
            if key == "reparse-cpu-timeout":
                acc.count("cpu-timeouts")
        if acc.counters.get("cpu-timeouts", 0) >= 4:
            acc.count("shard-stopped-early-after-cpu-timeouts")
            break
    # definitions with hundreds to thousands of extensions, names and list members
    for si, size in enumerate([150, 400, 1100, 2600] + ([6000] if ctx.thorough else [])):
        for ki, kind in enumerate(gs.KINDS):
            if (si * 3 + ki) % ctx.nshards != ctx.shard:
                continue
            acc.case()
            acc.count("many-extensions")
            acc.nontrivial("many", kind, size)
            for key, what in check_one(kind, gs.many_def(ctx.seed, kind, size), budget=30):
                acc.violation(key + ":many-extensions", what[:300], {"kind": kind, "many": [ctx.seed, size]})


def replay(w):
    if w.get("many"):
        return [(k + ":many-extensions", x) for k, x in check_one(w["kind"], gs.many_def(w["many"][0], w["kind"], w["many"][1]), budget=30)]
    return check_one(w["kind"], w["definition"])
