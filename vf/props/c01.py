"""C01 - every LDAP message survives encode -> decode unchanged (differential round trip)."""
from __future__ import annotations

import re

from vf import absval as av
from vf.common import Acc, Ctx, norm_msg, to_tuple
from vf.gen import values as gv

sl = av.sl
LEVEL = "exploration"
RULE = (
    "messages drawn from the boundary-biased generator (9 ops, any controls, filters to depth 6 quick / 40 thorough, "
    "lengths crossing 127/128/255/256/65535/65536, ids and ints to 2^80); non-trivial = has a control, or filter depth >= 2, "
    "or a field of >= 128 bytes, or an empty-but-present optional, or a multi-octet/negative integer, or non-ASCII text; "
    "distinct by hash of the abstract message"
)
ASSUMPTIONS = [
    "decoded equality is judged field-by-field on public dataclass fields (same class, same kind, ==)",
    "generic LDAPControl objects are only generated for OIDs the library does not register as known (DESIGN 7.3)",
    "text never contains lone surrogates (not encodable as UTF-8)",
]
GATE_FEATURES = (
    ["op:" + o for o in gv.OPS]
    + ["len:0", "len:<=127", "len:128-255", "len:256-65535", "len:>=65536"]
    + ["filter:" + k for k in ("and", "or", "not", "eq", "ge", "le", "approx", "present", "sub", "ext")]
    + ["control:paged", "control:known-novalue", "control:generic+crit+value", "control:generic-crit-value",
       "control:generic+crit-value", "control:generic-crit+value", "auth:simple", "auth:sasl", "int:>=2^31-1"]
)


def shards(tier):
    return 16


def gates(c, tier):
    out = [f"generator never produced class {f}" for f in GATE_FEATURES if c.get("feat:" + f, 0) == 0]
    if c.get("failed-pack-before-case", 0) == 0:
        out.append("no failing pack interleaved")
    if c.get("generic-control-object-with-known-oid", 0) == 0:
        out.append("no generic control object with a known OID")
    if c.get("options:non-default-encoding", 0) == 0:
        out.append("no message under a non-default string_encoding")
    return out


def _known_ok(a, b):
    opts = sl.ControlOptions()
    exp = a.get_value(opts)
    return b.value == exp and (a.value is None or a.value == b.value)


def _first_type_difference(a, b, path="msg"):
    import dataclasses

    if type(a) is not type(b):
        return f"{path}: {type(a).__name__} vs {type(b).__name__}"
    if dataclasses.is_dataclass(a):
        for f in dataclasses.fields(a):
            d = _first_type_difference(getattr(a, f.name), getattr(b, f.name), path + "." + f.name)
            if d:
                return d
    elif isinstance(a, (list, tuple)):
        for i, (x, y) in enumerate(zip(a, b)):
            d = _first_type_difference(x, y, f"{path}[{i}]")
            if d:
                return d
    return ""


def _path_bucket(p: str) -> str:
    return re.sub(r"\[[^\]]*\]", "[]", p.split(":")[0])


_SHARED_OPTS = None


ENCODINGS = ["utf-16-le", "utf-16-be", "utf-32-be", "utf-16", "utf-8"]


def mk_options(enc=None):
    """PackingOptions with the four string_encoding settings given as (message, authentication, control, filter)."""
    if not enc:
        return sl._messages.PackingOptions()
    e_m, e_a, e_c, e_f = enc
    return sl._messages.PackingOptions(string_encoding=e_m, authentication=sl.AuthenticationOptions(string_encoding=e_a),
                                       control=sl.ControlOptions(string_encoding=e_c), filter=sl.FilterOptions(string_encoding=e_f))


def check_one(m_abs, trailer: bytes, shared_options: bool = False, enc=None):
    """Returns list of (key, what). shared_options: use one long-lived PackingOptions for every message (as a
    session does) instead of fresh ones - exposes state memoised across calls or objects. enc: non-default text
    encodings in the options (the same settings are used for encoding and decoding)."""
    global _SHARED_OPTS
    out = []
    op = m_abs[0]
    m = av.build(av.fresh(m_abs))  # the message owns its field values: they die with it
    if enc:
        opts = mk_options(enc)
    elif shared_options:
        if _SHARED_OPTS is None:
            _SHARED_OPTS = sl._messages.PackingOptions()
        opts = _SHARED_OPTS
    else:
        opts = sl._messages.PackingOptions()
    try:
        data = m.pack(opts)
    except RecursionError:
        return [("pack-recursion:" + op, "pack raised RecursionError")]
    except Exception as e:
        return [(f"pack-exc:{op}:{norm_msg(e)}", f"pack raised {type(e).__name__}: {e}")]
    if not isinstance(data, bytes):
        out.append(("pack-type:" + op, f"pack returned {type(data).__name__}"))
    try:
        again = m.pack(opts)
        if again != data:
            out.append(("pack-not-repeatable:" + op, "packing the same message object twice gives different bytes"))
    except Exception as e:
        out.append((f"pack-second-time-exc:{op}:{norm_msg(e)}", f"second pack of the same object raised {type(e).__name__}: {e}"))
    try:
        other = av.build(m_abs).pack(opts)  # a second object built from the same field values
        if other != data:
            out.append(("equal-objects-pack-differently:" + op, "two message objects built from the same field values encode differently"))
    except Exception as e:
        out.append((f"pack-second-object-exc:{op}:{norm_msg(e)}", f"{type(e).__name__}: {e}"))
    reader = sl.asn1.ASN1Reader(bytes(data) + trailer)
    try:
        m2 = sl._messages.unpack_ldap_message(reader, opts if (shared_options and not enc) else mk_options(enc))
    except Exception as e:
        return out + [(f"unpack-exc:{op}:{norm_msg(e)}", f"decoding the library's own encoding raised {type(e).__name__}: {e}")]
    rem = reader.get_remaining_data()
    if rem != trailer:
        out.append(("consumed:" + op, f"decoder left {len(rem)} bytes, trailer had {len(trailer)}"))
    if isinstance(m_abs[1], int) and m_abs[1] % 3 == 1:
        # the next PDU of the stream: the same operation, another id, other controls (rows of a result set each carrying
        # their own control) - decoded right after, with the same options
        try:
            sib_ctl = (("1.2.3.4.5.6", True, b"next-row", None),) if not m_abs[3] else tuple(m_abs[3][1:])
            sib_abs = (m_abs[0], m_abs[1] + 1, m_abs[2], sib_ctl)
            sib = av.build(sib_abs)
            dopts = opts if (shared_options and not enc) else mk_options(enc)
            got_sib = sl._messages.unpack_ldap_message(sl.asn1.ASN1Reader(sib.pack(opts)), dopts)
            if av.abstract(got_sib) != av.abstract(sib):
                out.append(("consecutive-decodes-interfere:" + op, f"decoded right after a PDU with the same operation octets: {str(av.abstract(got_sib)[3])[:120]} expected controls {str(sib_abs[3])[:120]}"))
        except Exception as e:
            out.append((f"consecutive-decode-exc:{op}:{norm_msg(e)}", f"{type(e).__name__}: {e}"))
    d = av.same(m, m2, op, _known_ok)
    if d:
        out.append((f"diff:{_path_bucket(d)}", f"decoded message differs at {d}"))
    elif not any(c[0] in av.KNOWN_OIDS for c in m_abs[3]):
        # "equal to the original": the library's own equality must say so too (no control of a library-known type here,
        # whose decoded form legitimately carries the raw value octets in addition)
        try:
            if not (m2 == m) or (m2 != m):
                out.append((f"library-equality:{op}", "decoded message has the same fields as the original but == says they differ (field container types?) : " + _first_type_difference(m, m2)))
        except Exception as e:
            out.append((f"library-equality-exc:{op}", f"{type(e).__name__}: {e}"))
    try:
        a1, a2 = av.abstract(m), av.abstract(m2)
        if a1 != a2 and not d:
            out.append((f"abstract-diff:{op}", "abstract(decoded) != abstract(original)"))
        if a1 != m_abs:
            out.append((f"harness:{op}", "abstract(build(a)) != a (harness defect)"))
    except Exception as e:
        out.append((f"abstract-exc:{op}", f"{type(e).__name__}: {e}"))
    # the caller edits the message it encoded (lists are the caller's own objects) and encodes it again: the second
    # encoding is that of the edited value, i.e. nothing about the first encoding was remembered on the object
    try:
        extra = ("1.2.3.4.5", True, b"added-after-pack", None)
        m.controls.append(av.b_control(extra))
        edited = (m_abs[0], m_abs[1], m_abs[2], tuple(m_abs[3]) + (extra,))
        if op == "SearchRequest":
            m.attributes.append("addedAfterPack")
            edited = (edited[0], edited[1], edited[2][:7] + (tuple(edited[2][7]) + ("addedAfterPack",),), edited[3])
        elif op == "SearchResultReference":
            m.uris.append("ldap://added-after-pack/")
            edited = (edited[0], edited[1], (tuple(edited[2][0]) + ("ldap://added-after-pack/",),), edited[3])
        elif op == "SearchResultEntry":
            m.attributes.append(sl.PartialAttribute("addedAfterPack", [b"v"]))
            edited = (edited[0], edited[1], (edited[2][0], tuple(edited[2][1]) + (("addedAfterPack", (b"v",)),)), edited[3])
        if m.pack(opts) != av.build(edited).pack(opts):
            out.append(("stale-encoding-after-edit:" + op, "a message edited after it had been encoded once encodes differently from a new message with the same fields"))
    except Exception as e:
        out.append((f"edit-after-pack-exc:{op}:{norm_msg(e)}", f"{type(e).__name__}: {e}"))
    try:
        data2 = m2.pack(mk_options(enc))
        if data2 != data:
            out.append(("repack:" + op, "re-encoding the decoded message gives different bytes"))
    except Exception as e:
        out.append((f"repack-exc:{op}:{norm_msg(e)}", f"{type(e).__name__}: {e}"))
    return out


def str_twin(f):
    """A different filter with the same text form (None vs empty substring parts, present vs part-less substrings,
    absent vs empty extensible attribute): exposes anything keyed by str(filter)."""
    k = f[0]
    if k in ("and", "or"):
        kids = list(f[1])
        for i, x in enumerate(kids):
            t = str_twin(x)
            if t is not None:
                kids[i] = t
                return (k, tuple(kids))
        return None
    if k == "not":
        t = str_twin(f[1])
        return None if t is None else ("not", t)
    if k == "sub":
        _, attr, ini, anys, fin = f
        if ini is None:
            return ("sub", attr, b"", anys, fin)
        if ini == b"":
            return ("sub", attr, None, anys, fin)
        if fin is None:
            return ("sub", attr, ini, anys, b"")
        if fin == b"":
            return ("sub", attr, ini, anys, None)
        return None
    if k == "present":
        return ("sub", f[1], None, (), None)
    if k == "ext" and f[2] in (None, ""):
        return ("ext", f[1], "" if f[2] is None else None, f[3], f[4])
    return None


TRAILERS = [b"", b"", b"\x30", b"\x30\x03\x02\x01", b"\x00", b"\xff\xff", b"\x30\x84\x00\x00\x00\x05\x02\x01\x01"]


def generic_known_oid_cases():
    """A generic LDAPControl object carrying an OID the library knows (an application or proxy that does not use the
    typed classes): the decoded control - of the known type - has the same type string, criticality and value octets, and
    re-encodes to the same bytes."""
    out = []
    paged_values = [sl.PagedResultControl(critical=False, size=s_, cookie=c_).get_value(sl.ControlOptions()) for s_, c_ in ((0, b""), (100, b"ck"), (2**31 - 1, b"\x00" * 130))]
    for oid, values in ((av.SHOWDEL_OID, [None, b"", b"\x00", b"abc"]), (av.SHOWDEACT_OID, [None, b"", b"\x00", b"abc"]), (av.PAGED_OID, paged_values)):
        for critical in (False, True):
            for value in values:
                for op in ("ExtendedRequest", "SearchResultDone"):
                    out.append((oid, critical, value, op))
    return out


def check_generic_known(case):
    oid, critical, value, op = case
    ctl = sl.LDAPControl(oid, critical, value)
    if op == "ExtendedRequest":
        msg = sl.ExtendedRequest(message_id=1, controls=[ctl, sl.LDAPControl("1.2.3.4.5", False, b"x")], name="1.2.3", value=None)
    else:
        msg = sl.SearchResultDone(message_id=1, controls=[ctl], result=sl.LDAPResult(sl.LDAPResultCode.SUCCESS, "", "", None))
    opts = sl._messages.PackingOptions()
    out = []
    try:
        data = msg.pack(opts)
        rd = sl.asn1.ASN1Reader(data)
        back = sl._messages.unpack_ldap_message(rd, opts)
        c2 = back.controls[0]
        if (c2.control_type, c2.critical, c2.value) != (oid, critical, value):
            out.append((f"generic-control-with-known-oid:{'value' if c2.value != value else 'other'}", f"LDAPControl({oid!r}, {critical}, {value!r}) decodes as type={c2.control_type!r} critical={c2.critical} value={c2.value!r}"))
        if back.pack(opts) != data:
            out.append(("generic-control-with-known-oid:repack", f"LDAPControl({oid!r}, {critical}, {value!r}): re-encoding the decoded message gives different bytes"))
        if rd.get_remaining_data():
            out.append(("generic-control-with-known-oid:consumed", "bytes left over"))
    except Exception as e:
        out.append((f"generic-control-with-known-oid:exc:{type(e).__name__}", f"LDAPControl({oid!r}, {critical}, {value!r}): {type(e).__name__}: {e}"))
    return out


def run_shard(ctx: Ctx, acc: Acc):
    if ctx.shard % 4 == 2:
        for case in generic_known_oid_cases():
            acc.case()
            acc.count("generic-control-object-with-known-oid")
            acc.nontrivial("gk", case)
            for key, what in check_generic_known(case):
                acc.violation(key, what, {"generic_known": case})
    n = ctx.scale(160_000, 3_000_000)
    prof = gv.THOROUGH if ctx.thorough else gv.QUICK
    for i in range(n):
        r = ctx.rng(i)
        m_abs = gv.g_message(r, prof, op=gv.OPS[i % 9] if i < 900 else None)
        trailer = r.choice(TRAILERS) if r.random() < 0.8 else r.randbytes(r.randrange(1, 10))
        acc.case()
        feats = gv.features(m_abs)
        for f in feats:
            acc.count("feat:" + f)
        if gv.nontrivial(feats):
            acc.nontrivial(m_abs)
        if i < 2:
            acc.sample({"message": m_abs, "trailer": trailer})
        if m_abs[0] == "SearchRequest" and i % 2:
            tw = str_twin(m_abs[2][6])
            if tw is not None:
                twin = (m_abs[0], m_abs[1], m_abs[2][:6] + (tw,) + m_abs[2][7:], m_abs[3])
                acc.case()
                acc.count("string-form-twin-filters")
                for key, what in check_one(m_abs, b"") + check_one(twin, b""):
                    acc.violation(key + ":after-its-string-form-twin", what, {"message": twin, "trailer": b"", "before": m_abs})
        if i % 97 == 11:
            try:
                av.build(("SearchResultReference", 5, (("ldap://ok", "ldap://\udc80bad"),), ())).pack(sl._messages.PackingOptions())
            except Exception:
                acc.count("failed-pack-before-case")
        shared = (i % 3 == 0)
        acc.count("options:shared" if shared else "options:fresh")
        for key, what in check_one(m_abs, trailer, shared):
            acc.violation(key, what, {"message": m_abs, "trailer": trailer, "index": [ctx.seed, ctx.shard, i], "shared_options": shared})
        if i % 4 == 1:  # the same message under non-default text encodings (PackingOptions.string_encoding and its three sub-options)
            e = r.choice(ENCODINGS[:4])
            enc = [e, e, e, e]
            if r.random() < 0.4:
                enc[r.randrange(4)] = r.choice(ENCODINGS)
            acc.case()
            acc.count("options:non-default-encoding")
            for key, what in check_one(m_abs, trailer, False, tuple(enc)):
                acc.violation(key + ":non-default-encoding", what, {"message": m_abs, "trailer": trailer, "enc": enc})


def replay(w):
    if w.get("generic_known"):
        c = w["generic_known"]
        return check_generic_known((c[0], c[1], None if c[2] is None else bytes(c[2]), c[3]))
    if w.get("before"):
        check_one(to_tuple(w["before"]), b"")
    return check_one(to_tuple(w["message"]), bytes(w["trailer"]), bool(w.get("shared_options")), tuple(w["enc"]) if w.get("enc") else None)
