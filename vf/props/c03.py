"""C03 - encoded messages are RFC 4511 BER that an independent strict decoder reads back."""
from __future__ import annotations

from vf import absval as av
from vf.common import Acc, Ctx, norm_msg, to_tuple
from vf.gen import values as gv
from vf.ref import rfc4511

sl = av.sl
LEVEL = "exploration"
RULE = (
    "messages from the boundary-biased generator (as C01), the bytes emitted by LDAPClient/LDAPServer API calls, and forwarded messages (received in another valid BER form - C04's freedoms, also inside a paged control value - and packed again from the decoded object); each is "
    "decoded by vf/ref/rfc4511.decode_strict (exact tag class/number/PC per RFC 4511 Appendix B, definite lengths, primitive "
    "OCTET STRINGs, TRUE=0xFF, DEFAULT/absent components omitted, minimal integers, nothing after the envelope); "
    "non-trivial as C01; distinct by hash of the abstract message"
)
ASSUMPTIONS = [
    "SIZE/range constraints of the abstract syntax constrain the caller's value, not the encoding (DESIGN 7.2)",
    "the reference decoder is my reading of RFC 4511 Appendix B; it is self-tested against its own encoder and RFC literals",
]

from vf.props.c01 import GATE_FEATURES  # same class coverage


def shards(tier):
    return 16


def gates(c, tier):
    out = [f"generator never produced class {f}" for f in GATE_FEATURES if c.get("feat:" + f, 0) == 0]
    for k in ("api:client", "api:server", "unencodable-message-refused", "forwarded", "forwarded:paged-value-in-another-valid-form"):
        if c.get(k, 0) == 0:
            out.append(f"never exercised {k}")
    return out


def check_bytes(data: bytes, expect, label):
    try:
        got = rfc4511.decode_strict(data)
    except rfc4511.RefDecodeError as e:
        if _only_unbind_constructed(data, expect):
            return [("unbind-constructed-bit", "UnbindRequest is emitted as 62 00 (constructed); RFC 4511: [APPLICATION 2] NULL is primitive (42 00); "
                     "everything else in the message decodes strictly")]
        return [(f"ref-reject:{label}:{norm_msg(e, 60)}", f"strict RFC 4511 decoder rejects the bytes: {e}")]
    except RecursionError:
        return [(f"harness-recursion:{label}", "reference decoder recursion")]
    if got != expect:
        return [(f"ref-diff:{label}", f"strict decoder recovers a different message: {str(got)[:120]} != {str(expect)[:120]}")]
    return []


def _only_unbind_constructed(data, expect) -> bool:
    """Mechanism classifier for the known finding: the *only* deviation is the constructed bit of [APPLICATION 2]."""
    from vf.ref import ber

    try:
        n = ber.parse(bytes(data))
        if n.end != len(data) or not n.children or len(n.children) < 2:
            return False
        op = n.children[1]
        if (op.cls, op.pc, op.num) != (ber.APPL, True, 2) or op.children != []:
            return False
        op.pc, op.children, op.content = False, None, b""
        return rfc4511.decode_node(n) == expect
    except Exception:
        return False


def check_one(m_abs):
    m = av.build(m_abs)
    try:
        data = m.pack(sl._messages.PackingOptions())
    except Exception as e:
        return [(f"pack-exc:{m_abs[0]}:{norm_msg(e)}", f"{type(e).__name__}: {e}")]
    return check_bytes(data, m_abs, m_abs[0])


def check_forwarded(m_abs, rseed):
    """A message that was *received* (in some other valid BER form, C04's freedoms) and is then sent on as it is - the paging
    loop and the proxy: the bytes the library produces for the decoded object are judged like any others."""
    from vf.common import rng_for
    from vf.props import c04

    r = rng_for("c03fwd", rseed)
    counts = {}

    def cnt(k, n=1):
        counts[k] = counts.get(k, 0) + n

    root = rfc4511.Enc(explicit_default=lambda site: r.random() < 0.5).message(m_abs)
    c04.apply_random(root, r, cnt, p_len=0.6, a=m_abs)
    wire = c04._ser(root)
    try:
        m = sl._messages.unpack_ldap_message(sl.asn1.ASN1Reader(wire), sl._messages.PackingOptions())
        if av.abstract(m) != m_abs:
            return [], counts  # the decoder's business (C04), nothing to say about the encoder
    except Exception:
        return [], counts
    cnt("forwarded")
    strict = av.build(m_abs).pack(sl._messages.PackingOptions())
    if any(c[3] is not None for c in m_abs[3]) and bytes(wire) != bytes(strict):
        cnt("forwarded:paged-value-in-another-valid-form")
    try:
        data = m.pack(sl._messages.PackingOptions())
    except Exception as e:
        return [(f"pack-exc:forwarded:{m_abs[0]}:{norm_msg(e)}", f"re-packing a decoded message raised {type(e).__name__}: {e}")], counts
    return check_bytes(data, m_abs, "forwarded:" + m_abs[0]), counts


def api_conversation(r, prof):
    """Drive real sessions; return list of (label, bytes, expected abstract)."""
    out = []
    c = sl.LDAPClient()
    s = sl.LDAPServer()
    ctl = [av.b_control(x) for x in gv.g_controls(r, prof)]
    actl = tuple(av.a_control(x) for x in ctl)
    # client requests
    dn, pw = gv.g_text(r, prof), gv.g_text(r, prof)
    mid = c.bind_simple(dn, pw, controls=ctl)
    out.append(("client.bind_simple", c.data_to_send(), ("BindRequest", mid, (3, dn, ("simple", pw)), actl)))
    s.receive(out[-1][1])
    code = r.choice(gv.RESULT_CODES)
    sasl = gv.g_opt(r, lambda: gv.g_bytes(r, prof))
    md, dm = gv.g_text(r, prof), gv.g_text(r, prof)
    s.bind_response(mid, sasl_creds=sasl, result_code=sl.LDAPResultCode(code), matched_dn=md, diagnostics_message=dm)
    b = s.data_to_send()
    out.append(("server.bind_response", b, ("BindResponse", mid, ((code, md, dm, ()), sasl), ())))
    c.receive(b)
    if code == 14:
        mech, cred = r.choice(["GSSAPI", "", "X"]), gv.g_opt(r, lambda: gv.g_bytes(r, prof))
        mid = c.bind_sasl(mech, dn, cred)
        out.append(("client.bind_sasl", c.data_to_send(), ("BindRequest", mid, (3, dn, ("sasl", mech, cred)), ())))
        s.receive(out[-1][1])
        s.bind_response(mid)
        c.receive(s.data_to_send())
    # search
    f_abs = gv.g_filter(r, prof)
    base = gv.g_text(r, prof)
    attrs = tuple(gv.g_attrdesc(r) for _ in range(r.choice([0, 1, 3])))
    size, tm = abs(gv.g_int(r)), abs(gv.g_int(r))
    to = r.random() < 0.5
    sc, de = r.choice([0, 1, 2]), r.choice([0, 1, 2, 3])
    mid = c.search_request(base, sc, de, size, tm, to, av.b_filter(f_abs), list(attrs), controls=ctl)
    b = c.data_to_send()
    # the API substitutes defaults for falsy arguments
    exp_filter = f_abs
    out.append(("client.search_request", b, ("SearchRequest", mid, (base, sc, de, size, tm, to, exp_filter, attrs), actl)))
    s.receive(b)
    for _ in range(r.choice([0, 1, 3])):
        e_abs = gv.g_body(r, prof, "SearchResultEntry")
        s.search_result_entry(mid, e_abs[0], [sl.PartialAttribute(n, list(v)) for n, v in e_abs[1]])
        out.append(("server.search_result_entry", s.data_to_send(), ("SearchResultEntry", mid, e_abs, ())))
        uris = tuple(gv.g_text(r, prof) for _ in range(r.choice([1, 2])))
        s.search_result_reference(mid, list(uris), controls=ctl)
        out.append(("server.search_result_reference", s.data_to_send(), ("SearchResultReference", mid, (uris,), actl)))
    s.search_result_done(mid, sl.LDAPResultCode(code), md, dm, controls=ctl)
    out.append(("server.search_result_done", s.data_to_send(), ("SearchResultDone", mid, ((code, md, dm, ()),), actl)))
    # extended
    name, val = gv.g_text(r, prof) or "1.2", gv.g_opt(r, lambda: gv.g_bytes(r, prof))
    mid = c.extended_request(name, val)
    b = c.data_to_send()
    out.append(("client.extended_request", b, ("ExtendedRequest", mid, (name, val), ())))
    s.receive(b)
    rn, rv = gv.g_opt(r, lambda: gv.g_text(r, prof)), gv.g_opt(r, lambda: gv.g_bytes(r, prof))
    if rn == gv.NOTICE_OID:
        rn = None
    s.extended_response(mid, rn, rv, sl.LDAPResultCode(code), md, dm)
    out.append(("server.extended_response", s.data_to_send(), ("ExtendedResponse", mid, ((code, md, dm, ()), rn, rv), ())))
    c.unbind()
    out.append(("client.unbind", c.data_to_send(), ("UnbindRequest", 0, (), ())))
    # error notices
    s2 = sl.LDAPServer()
    try:
        s2.receive(b"\x30\x03\x02\x01")
        s2.receive(b"\x05\x00\x00")
    except sl.ProtocolError as e:
        if e.response is not None:
            try:
                got = rfc4511.decode_strict(e.response)
                out.append(("server.notice", e.response, ("ExtendedResponse", 0, ((2, "", got[2][0][2], None), gv.NOTICE_OID, None), ())))
            except rfc4511.RefDecodeError:
                out.append(("server.notice", e.response, None))
    return out


def unencodable_messages():
    """Messages with a lone surrogate in one text field, at every nesting level of the writers: no RFC 4511 encoding
    exists (LDAPString is UTF-8), so pack must fail - bytes returned for them cannot be an encoding of that message."""
    B = "x\udc80"
    res = (0, "", "", None)
    return [
        ("BindRequest", 1, (3, "cn=" + B, ("simple", "pw")), ()),
        ("BindRequest", 1, (3, "cn=a", ("sasl", "GSS" + B, b"t")), ()),
        ("BindResponse", 1, ((49, B, "", None), None), ()),
        ("BindResponse", 1, ((49, "", "diag" + B, ("ldap://a/",)), None), ()),
        ("SearchRequest", 2, ("dc=" + B, 2, 0, 0, 0, False, ("present", "cn"), ()), ()),
        ("SearchRequest", 2, ("dc=x", 2, 0, 0, 0, False, ("and", (("eq", "cn" + B, b"v"), ("present", "sn"))), ()), ()),
        ("SearchRequest", 2, ("dc=x", 2, 0, 0, 0, False, ("not", ("sub", "cn" + B, b"i", (), None)), ("cn",)), ()),
        ("SearchRequest", 2, ("dc=x", 2, 0, 0, 0, False, ("ext", "rule" + B, "cn", b"v", True), ("cn",)), ()),
        ("SearchRequest", 2, ("dc=x", 2, 0, 0, 0, False, ("present", "cn"), ("cn", "sn" + B)), ()),
        ("SearchResultEntry", 2, ("cn=" + B, ()), ()),
        ("SearchResultEntry", 2, ("cn=e", (("cn", (b"v",)), ("sn" + B, (b"w",)))), ()),
        ("SearchResultReference", 2, (("ldap://ok/", "ldap://" + B),), ()),
        ("SearchResultDone", 2, ((10, "", "", ("ldap://" + B,)),), ()),
        ("ExtendedRequest", 3, ("1.2." + B, None), ()),
        ("ExtendedResponse", 3, (res, "1.2." + B, b"v"), ()),
        ("ExtendedResponse", 3, ((0, "", B, None), None, None), ()),
        ("ExtendedRequest", 3, ("1.2.3", None), (("1.2.3." + B, True, b"v", None),)),
        ("SearchResultDone", 2, (res,), (("1.2.840.113556.1.4.319", False, None, ("paged", 5, b"c")), ("1.2.9" + B, False, None, None))),
    ]


def check_unencodable(m_abs):
    try:
        m = av.build(m_abs)
    except Exception:
        return []
    try:
        data = m.pack(sl._messages.PackingOptions())
    except Exception:
        return []
    return [("bytes-for-a-message-that-has-no-encoding:" + m_abs[0], f"pack returned {len(bytes(data))} octets ({bytes(data)[:48].hex()}...) for a message whose text cannot be encoded as UTF-8")]


def run_shard(ctx: Ctx, acc: Acc):
    n = ctx.scale(120_000, 3_000_000)
    prof = gv.THOROUGH if ctx.thorough else gv.QUICK
    if ctx.shard % 4 == 0:
        for m_abs in unencodable_messages():
            acc.case()
            acc.count("unencodable-message-refused")
            acc.nontrivial("unencodable", m_abs)
            for key, what in check_unencodable(m_abs):
                acc.violation(key, what, {"unencodable": m_abs})
    for i in range(n):
        r = ctx.rng(i)
        m_abs = gv.g_message(r, prof, op=gv.OPS[i % 9] if i < 900 else None)
        acc.case()
        feats = gv.features(m_abs)
        for f in feats:
            acc.count("feat:" + f)
        if gv.nontrivial(feats):
            acc.nontrivial(m_abs)
        if i < 2:
            acc.sample({"message": m_abs, "bytes": av.build(m_abs).pack(sl._messages.PackingOptions())[:200]})
        for key, what in check_one(m_abs):
            acc.violation(key, what, {"message": m_abs})
    for j in range(max(1, n // 40)):
        r = ctx.rng("fwd", j)
        m_abs = gv.g_message(r, prof, op=gv.OPS[j % 9])
        if j % 2 and not any(c[3] is not None for c in m_abs[3]):
            m_abs = (m_abs[0], m_abs[1], m_abs[2], m_abs[3] + ((gv.PAGED_OID, bool(j & 2), None, ("paged", gv.g_int(r), gv.g_bytes(r, prof))),))
        acc.case()
        res, counts = check_forwarded(m_abs, [ctx.seed, ctx.shard, j])
        for k, v in counts.items():
            if k.startswith("forwarded"):
                acc.count(k, v)
        for key, what in res:
            acc.violation(key, what, {"forwarded": m_abs, "rseed": [ctx.seed, ctx.shard, j]})
    for j in range(max(1, n // 100)):
        r = ctx.rng("api", j)
        try:
            conv = api_conversation(r, gv.SMALL if j % 2 else prof)
        except Exception as e:
            acc.violation(f"api-exc:{norm_msg(e)}", f"model-legal API conversation raised {type(e).__name__}: {e}", {"api_seed": [ctx.seed, ctx.shard, j]})
            continue
        for label, data, expect in conv:
            acc.case()
            acc.count("api:" + label.split(".")[0])
            acc.count("api-call:" + label)
            acc.nontrivial("api", data)
            if expect is None:
                acc.violation("ref-reject:" + label, "bytes not decodable by the strict decoder", {"label": label, "bytes": data})
                continue
            for key, what in check_bytes(data, expect, label):
                acc.violation(key, what, {"label": label, "bytes": data, "expected": expect})


def replay(w):
    if "unencodable" in w:
        return check_unencodable(to_tuple(w["unencodable"]))
    if "forwarded" in w:
        return check_forwarded(to_tuple(w["forwarded"]), w["rseed"])[0]
    if "message" in w:
        return check_one(to_tuple(w["message"]))
    if "bytes" in w and w.get("expected") is not None:
        return check_bytes(bytes(w["bytes"]), to_tuple(w["expected"]), w.get("label", "replay"))
    return []
