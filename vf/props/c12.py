"""C12 - outgoing bytes are delivered exactly once, in order, however they are drained (conservation over drains)."""
from __future__ import annotations

from vf import absval as av
from vf.common import Acc, Ctx, to_tuple
from vf.gen import histories as H
from vf.gen import values as gv
from vf.mon.driver import Driver, decode_out_stream
from vf.ref import rfc4511

sl = av.sl
LEVEL = "exploration"
RULE = (
    "single-session histories (both roles) of 1-40 send calls, accepted and refused, interleaved with data_to_send(a) for a in {None, 0, 1, "
    "pending-1, pending, pending+1, 10^9, random}; a twin session receives the same calls and is drained completely after every call. "
    "Checked: len(drain) == min(a, pending) with pending computed from the twin; concat(all drains) == concat(twin's per-call bytes); the "
    "stream decodes (strict reference decoder) to exactly the accepted calls' messages in order; state equal to the twin's after every step; "
    "non-trivial = a partial drain strictly inside a message followed by another send; distinct by hash of the concrete steps"
)
ASSUMPTIONS = ["requested amounts are None or non-negative integers", "twin and subject are fresh sessions given identical calls (determinism of the library is separately covered by C19)"]
AMOUNT_CLASSES = ["None", "0", "1", "p-1", "p", "p+1", "huge", "rand"]


def shards(tier):
    return 16


def gates(c, tier):
    out = [f"amount class {a} never used" for a in AMOUNT_CLASSES if c.get("amount:" + a, 0) == 0]
    for k in ("partial-drain-then-send", "role:client", "role:server", "refused-send", "drain-while-empty", "failing-send"):
        if c.get(k, 0) == 0:
            out.append(f"never observed {k}")
    return out


def g_steps(r, role):
    """Concrete step list for one session."""
    steps = []
    shadow = Driver(role, "drain")  # used only to pick plausible ids while generating
    retired = []
    fresh = 10
    n_sends = r.choice([1, 2, 5, 10, 20, 40])
    sends = 0
    while sends < n_sends:
        x = r.random()
        if role == "server" and (x < 0.3 or not shadow.model.ip and x < 0.6):
            fresh += 1
            a = ("receive", H.crafted_for_server(r, shadow, fresh)) if r.random() < 0.9 else ("receive", b"")
        elif role == "client" and x < 0.2:
            a = ("receive", H.crafted_for_client(r, shadow, retired)) if shadow.model.ip and r.random() < 0.8 else ("receive", b"")
        elif x < 0.55:
            a = ("drain", r.choice(AMOUNT_CLASSES + ["1", "p-1", "rand", "rand", "p-1"]))
        else:
            a = H.client_api_action(r, gv.SMALL if r.random() < 0.9 else gv.QUICK) if role == "client" else H.server_api_action(r, shadow, retired)
            if a[0] == "unbind" and r.random() < 0.7:
                continue
            sends += 1
        steps.append(a)
        if a[0] != "drain":
            before = set(shadow.model.ip)
            shadow.step(a)
            retired.extend(before - set(shadow.model.ip))
    if r.random() < 0.25:
        steps.append(("failing-send", r.randrange(4)))
        steps.append(("drain", "None"))
    return steps


def run_case(role, steps):
    out = []
    obs = {}
    subj = Driver(role, "pending")
    twin = Driver(role, "drain")
    queued_total = 0  # bytes the twin says were queued so far
    drained_total = 0
    last_partial_inside = False
    import random as _random

    rr = _random.Random(len(steps))
    for a in steps:
        if a[0] == "failing-send":
            # a send call that raises (whatever the exception) did not succeed: it must contribute no byte
            before = subj.sess.data_to_send()
            subj.out_stream += before
            drained_total += len(before)
            try:
                if role == "client":
                    [lambda: subj.sess.search_request("dc=x", attributes=["cn", "bad\udc80attr"]), lambda: subj.sess.extended_request("1.2.\ud800"),
                     lambda: subj.sess.bind_simple("cn=\udfff", "pw"), lambda: subj.sess.search_request("dc=\ud800")][a[1] % 4]()
                else:
                    ids = sorted(subj.model.ip) or [1]
                    [lambda: subj.sess.search_result_entry(ids[0], "cn=\ud800", []), lambda: subj.sess.extended_response(ids[0], name="1.2.\udc00"),
                     lambda: subj.sess.search_result_reference(ids[0], ["ldap://ok", "ldap://\ud800"]), lambda: subj.sess.bind_response(ids[0], diagnostics_message="\udfff")][a[1] % 4]()
                obs["failing-send:unexpectedly-accepted"] = obs.get("failing-send:unexpectedly-accepted", 0) + 1
                return out, obs  # the library accepted it (not a failing send after all): stop this case, nothing to judge
            except Exception:
                obs["failing-send"] = obs.get("failing-send", 0) + 1
            leaked = subj.sess.data_to_send()
            if leaked:
                out.append(("failed-send-left-bytes", f"a send call that raised while encoding left {len(leaked)} bytes in the outgoing stream: {leaked[:40].hex()}"))
                return out, obs
            # the twin does not get the failing call; protocol state after a failed send is not compared (C08/C10's subject)
            obs["stop-state-compare"] = 1
            return_after_fail = True
            continue
        if a[0] == "drain":
            pend = queued_total - drained_total
            cls = a[1]
            amount = {"None": None, "0": 0, "1": 1, "p-1": max(0, pend - 1), "p": pend, "p+1": pend + 1, "huge": 10**9}.get(cls, None)
            if cls == "rand":
                amount = rr.randrange(0, pend + 2)
            elif isinstance(cls, int):
                amount = cls
            obs["amount:" + str(cls)] = obs.get("amount:" + str(cls), 0) + 1
            st = subj.sess.state
            data = subj.sess.data_to_send(amount)
            subj.out_stream += data
            want = pend if amount is None else min(amount, pend)
            if not isinstance(data, bytes):
                out.append(("drain-type", f"data_to_send returned {type(data).__name__}"))
            if len(data) != want:
                out.append(("drain-length", f"data_to_send({amount}) with {pend} bytes pending returned {len(data)}"))
                return out, obs
            if subj.sess.state is not st:
                out.append(("drain-changed-state", f"{st.name} -> {subj.sess.state.name}"))
            if pend == 0:
                obs["drain-while-empty"] = 1
            drained_total += len(data)
            last_partial_inside = 0 < len(data) < pend
            continue
        v1 = subj.step(a)
        v2 = twin.step(a)
        if a[0] != "receive":
            if subj.trace[-1]["outcome"] == "ok":
                if last_partial_inside:
                    obs["partial-drain-then-send"] = obs.get("partial-drain-then-send", 0) + 1
            else:
                obs["refused-send"] = 1
        queued_total = len(twin.out_stream)
        if subj.trace[-1]["outcome"] != twin.trace[-1]["outcome"] or subj.sess.state is not twin.sess.state:
            out.append(("draining-affects-protocol", f"after {a[0]}: subject {subj.trace[-1]['outcome']}/{subj.sess.state.name} twin {twin.trace[-1]['outcome']}/{twin.sess.state.name}"))
            return out, obs
        if v2:
            # bytes that no successful send call queued are this property's subject; other model divergences are C08/C10's
            for key, what in v2:
                if key.startswith(("receive-queued-bytes", "rejected-call-queued-bytes", "unexpected-bytes", "bytes-appeared-between-calls")):
                    out.append(("bytes-not-from-a-successful-send:" + key.split(":")[0], what))
            obs["twin-model-divergence"] = 1
            return out, obs
    subj.out_stream += subj.sess.data_to_send()
    if subj.out_stream != twin.out_stream:
        # locate
        a_, b_ = subj.out_stream, twin.out_stream
        k = next((i for i in range(min(len(a_), len(b_))) if a_[i] != b_[i]), min(len(a_), len(b_)))
        out.append(("stream-differs", f"concatenated drains ({len(a_)} bytes) != encodings of the accepted sends ({len(b_)} bytes), first difference at offset {k}"))
    out += decode_out_stream(subj.out_stream, subj.expected_stream)
    if subj.sess.data_to_send() != b"":
        out.append(("bytes-after-full-drain", "data_to_send() after a full drain returned more bytes"))
    return out, obs


def run_shard(ctx: Ctx, acc: Acc):
    n = ctx.scale(30_000, 800_000)
    for i in range(n):
        r = ctx.rng(i)
        role = r.choice(["client", "server"])
        steps = g_steps(r, role)
        acc.case()
        acc.count("role:" + role)
        vio, obs = run_case(role, steps)
        for k, v in obs.items():
            acc.count(k, v)
        acc.count("steps", len(steps))
        if obs.get("partial-drain-then-send"):
            acc.nontrivial(role, steps)
        if i < 2:
            acc.sample({"role": role, "steps": [(a[0], a[1] if a[0] == "drain" else None) for a in steps][:30]})
        for key, what in vio:
            acc.violation(key, what, {"role": role, "steps": steps})


def replay(w):
    vio, obs = run_case(w["role"], [to_tuple(a) for a in w["steps"]])
    return vio
