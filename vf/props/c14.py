"""C14 - filter text is parsed as RFC 4515 defines it (grammar sentences, differential vs reference parser + RFC 4511 bytes)."""
from __future__ import annotations

from vf import absval as av
from vf.common import call_with_headroom, Acc, CpuTimeout, Ctx, cpu_limit, norm_msg
from vf.gen import filters as gf
from vf.ref import rfc4511, rfc4515

sl = av.sl
LEVEL = "exploration"
RULE = (
    "tree -> sentence with every free choice of the grammar: hex case per escape, raw vs escaped for every octet allowed raw (incl. control "
    "characters 0x01-0x1F and well-formed UTF-8), empty values, options, OIDs vs descriptors, the three extensible forms, ':dn' literal in "
    "any case, U+0020 decoration at the tolerated positions; nesting <= 20 quick / <= 150 thorough. Oracle: abstract(from_string(text)) == "
    "reference_parse(text) == generating tree, and the strict RFC 4511 decode of SearchRequest(filter=parsed).pack() carries that tree; "
    "non-trivial = sentence with an escape or decoration and depth >= 2; distinct by hash of the sentence"
)
ASSUMPTIONS = [
    "only sentences with a unique derivation are generated (a rule spelled 'dn' only where no attribute is present, DESIGN 7.8)",
    "oracle_disagreement (generating tree != reference parse) discards the case and must be 0",
]
PRODS = ["prod:" + k for k in ("and", "or", "not", "eq", "ge", "le", "approx", "present", "sub", "ext")]
NEEDED = PRODS + ["deco:after-lparen", "deco:after-op", "deco:between-siblings", "deco:before-rparen", "deco:leading", "deco:trailing",
                  "raw-control", "raw-utfmb", "raw-space", "esc-upper", "esc-lower", "esc-mixed-case-pair", "empty-value", "dn-literal-case",
                  "ext:attr", "ext:attr+dn", "ext:attr+rule", "ext:attr+dn+rule", "ext:+rule", "ext:+dn+rule", "sub:i--", "sub:-a-", "sub:--f", "sub:iaf"]


def shards(tier):
    return 16


def gates(c, tier):
    out = [f"never used: {k}" for k in NEEDED if c.get(k, 0) == 0]
    if c.get("part:large-flat-sentences", 0) == 0:
        out.append("no large flat sentence")
    if c.get("part:deep-sentences", 0) == 0:
        out.append("no deeply nested sentence")
    if c.get("malformed-inputs-interleaved", 0) == 0:
        out.append("no malformed input interleaved")
    if c.get("oracle_disagreement", 0):
        out.append(f"oracle_disagreement = {c['oracle_disagreement']}")
    return out[:10]


def check_text(text: str, tree):
    out = []
    try:
        with cpu_limit(10):
            got = sl.LDAPFilter.from_string(text)
    except CpuTimeout:
        return [("parse-cpu-timeout", f"grammar sentence of {len(text)} chars not parsed within 10 CPU-seconds")]
    except sl._filter.FilterSyntaxError as e:
        feat = "upper-case-dn-literal" if any(x in text for x in (":DN", ":Dn", ":dN")) else norm_msg(e, 40)
        return [(f"sentence-rejected:{feat}", f"RFC 4515 sentence {text[:140]!r} rejected: {e}")]
    except Exception as e:
        return [(f"sentence-exc:{norm_msg(e, 40)}", f"{text[:140]!r}: {type(e).__name__}: {e}")]
    a = av.a_filter(got)
    if a != tree:
        out.append(("sentence-misparsed", f"{text[:140]!r} parsed to {str(a)[:140]} ; grammar denotes {str(tree)[:140]}"))
        return out
    try:
        req = sl.SearchRequest(message_id=1, controls=[], base_object="", scope=sl.SearchScope.SUBTREE, deref_aliases=sl.DereferencingPolicy.NEVER,
                               size_limit=0, time_limit=0, types_only=False, filter=got, attributes=[])
        data = req.pack(sl._messages.PackingOptions())
        dec = rfc4511.decode_strict(data)
        if dec[2][6] != tree:
            out.append(("encoded-filter-differs", f"SearchRequest bytes carry {str(dec[2][6])[:140]} for sentence {text[:100]!r}"))
    except rfc4511.RefDecodeError as e:
        out.append((f"encoded-filter-undecodable:{norm_msg(e, 30)}", f"{text[:100]!r}: {e}"))
    except RecursionError:
        out.append(("harness-recursion", "recursion limit in pack/reference decode"))
    return out


def run_shard(ctx: Ctx, acc: Acc):
    n = ctx.scale(60_000, 1_500_000)
    maxd = 150 if ctx.thorough else 20
    for i in range(n):
        r = ctx.rng(i)
        d = r.choice([0, 0, 1, 2, 3, 4, maxd if i % 40 == 0 else 5])
        tree = gf.g_text_filter(r, d, fan=4, hostile=True, dn_rule_rate=0)
        if r.random() < 0.02:
            # the unambiguous position of a rule spelled 'dn'
            tree = ("and", (tree, ("ext", r.choice(["dn", "DN"]), None, b"v", r.random() < 0.5)))
        rd = gf.Render(r, decoration=r.random() < 0.7)
        text = rd.sentence(tree)
        if len(text) > 300_000:  # deep x wide x long values multiply; cost for big inputs is C18's subject, not a parse verdict
            acc.count("skipped-oversize-sentence")
            continue
        acc.case()
        try:
            ref = rfc4515.parse(text, decoration=True, strict_values=True)
        except (rfc4515.FilterRefError, RecursionError) as e:
            acc.count("oracle_disagreement")
            acc.notes.append(f"reference parser rejected generated sentence {text[:100]!r}: {e}")
            continue
        if ref != tree:
            acc.count("oracle_disagreement")
            acc.notes.append(f"reference parse differs for {text[:100]!r}")
            continue
        for u in rd.used:
            acc.count(u)
        from vf.props.c13 import depth

        if depth(tree) >= 2 and (rd.used & {"esc-upper", "esc-lower"} or any(u.startswith("deco:") for u in rd.used)):
            acc.nontrivial(text)
        if i < 3:
            acc.sample({"sentence": text, "tree": tree})
        if i % 2:
            # failures first: truncated, unbalanced, a malformed escape after a well-formed one, a lone backslash
            for brokenform in (text[:-1], text.replace(")", "", 1), "(&" + text, "(cn=Smith\\2c John\\zz)", "(sn=a\\28b\\2)", "(&" + text + "(cn=\\41\\4)", "(cn=ab\\"):
                try:
                    with cpu_limit(10):
                        sl.LDAPFilter.from_string(brokenform)
                except (Exception, CpuTimeout):
                    acc.count("malformed-inputs-interleaved")
        for key, what in check_text(text, tree):
            acc.violation(key, what, {"text": text})
    deep_sentences(ctx, acc)
    large_sentences(ctx, acc)


def deep_sentences(ctx, acc):
    """Sentences nested far deeper than the random part reaches (RFC 4515 puts no bound on nesting; the library parses
    recursively and documents its limit as Python's recursion limit - several hundred levels are accepted)."""
    depths = [129, 160, 250, 350, 420]
    # before: a moderately nested filter parsed with little stack headroom (refused or parsed - C15 judges that call);
    # whatever happened there says nothing about the depth of later sentences
    for hd, hh in ((90, 60), (60, 100), (200, 150)):
        try:
            call_with_headroom(hh, lambda: sl.LDAPFilter.from_string("(!" * hd + "(a=b)" + ")" * hd))
            acc.count("low-headroom-parse-before-deep:parsed")
        except Exception:
            acc.count("low-headroom-parse-before-deep:refused")
    for di, d in enumerate(depths):
        for oi, op in enumerate("&|!"):
            if (di * 3 + oi) % ctx.nshards != ctx.shard:
                continue
            r = ctx.rng("deep", d, op)
            leaf = gf.g_text_filter(r, 0, hostile=True, dn_rule_rate=0)
            leaf_text = gf.Render(r, decoration=False).sentence(leaf)
            text = ("(" + op) * d + leaf_text + ")" * d
            acc.case()
            acc.count("part:deep-sentences")
            acc.nontrivial("deep", d, op, leaf_text)
            try:
                with cpu_limit(10):
                    got = sl.LDAPFilter.from_string(text)
            except CpuTimeout:
                acc.violation("parse-cpu-timeout:deep", f"{d}-level sentence not parsed within 10 CPU-seconds", {"text": text, "deep": True})
                continue
            except Exception as e:
                acc.violation(f"sentence-rejected:deep:{type(e).__name__}", f"RFC 4515 sentence with {d} nested {op!r} rejected: {type(e).__name__}: {str(e)[:100]}", {"text": text, "deep": True})
                continue
            # walk down iteratively (no recursion in the harness)
            node, ok = got, True
            for _ in range(d):
                cls = {"&": sl.FilterAnd, "|": sl.FilterOr, "!": sl.FilterNot}[op]
                if type(node) is not cls or (op != "!" and len(node.filters) != 1):
                    ok = False
                    break
                node = node.filter if op == "!" else node.filters[0]
            if not ok or av.a_filter(node) != leaf:
                acc.violation("sentence-misparsed:deep", f"{d} nested {op!r} around {leaf_text[:60]!r}: wrong tree", {"text": text, "deep": True})


def large_sentence(which, size):
    if which == "one-value":
        return "(cn=" + "v" * size + ")", ("eq", "cn", b"v" * size)
    if which == "escaped-value":
        return "(cn=" + "\\c3\\a9" * (size // 6) + ")", ("eq", "cn", "\u00e9".encode() * (size // 6))
    n_items = size // 17
    return "(|" + "".join("(uid=user%07d)" % i for i in range(n_items)) + ")", ("or", tuple(("eq", "uid", b"user%07d" % i) for i in range(n_items)))


def large_sentences(ctx, acc):
    """Grammar sentences of 1.2 / 5 MB (thorough: 20 MB): one long value, one long escaped value, an OR of many items. Flat, so
    parsing is linear; a generous 120 CPU-second budget."""
    sizes = [1_200_000, 5_000_000] + ([20_000_000] if ctx.thorough else [])
    k = 0
    for size in sizes:
        for which in ("one-value", "escaped-value", "many-items"):
            k += 1
            if k % ctx.nshards != ctx.shard:
                continue
            text, tree = large_sentence(which, size)
            acc.case()
            acc.count("part:large-flat-sentences")
            acc.nontrivial("large", which, size)
            try:
                with cpu_limit(120):
                    got = sl.LDAPFilter.from_string(text)
            except CpuTimeout:
                acc.count("large-flat-sentence:cpu-timeout")  # cost is C18's subject: no verdict here
                continue
            except Exception as e:
                acc.violation(f"sentence-rejected:large:{type(e).__name__}", f"a {len(text)}-character RFC 4515 sentence ({which}) was rejected: {type(e).__name__}: {str(e)[:100]}", {"large": [which, size]})
                continue
            ok = (isinstance(got, sl.FilterEquality) and got.attribute == tree[1] and got.value == tree[2]) if tree[0] == "eq" else \
                 (isinstance(got, sl.FilterOr) and len(got.filters) == len(tree[1]) and got.filters[0].value == tree[1][0][2] and got.filters[-1].value == tree[1][-1][2])
            if not ok:
                acc.violation("sentence-misparsed:large", f"{len(text)}-character sentence ({which}) parsed to something else", {"large": [which, size]})


def replay(w):
    if w.get("large"):
        text, _ = large_sentence(*w["large"])
        try:
            sl.LDAPFilter.from_string(text)
            return []
        except Exception as e:
            return [(f"sentence-rejected:large:{type(e).__name__}", str(e)[:100])]
    text = w["text"]
    if w.get("deep"):
        try:
            sl.LDAPFilter.from_string(text)
            return []
        except Exception as e:
            return [(f"sentence-rejected:deep:{type(e).__name__}", str(e)[:100])]
    try:
        tree = rfc4515.parse(text, decoration=True, strict_values=True)
    except rfc4515.FilterRefError:
        return []
    return check_text(text, tree)
