"""C08 - session lifecycle follows the documented state machine; CLOSED is final (online trace checker vs model)."""
from __future__ import annotations

import itertools

from vf import absval as av
from vf.common import Acc, Ctx, to_tuple
from vf.gen import histories as H
from vf.mon.driver import Driver

sl = av.sl
LEVEL = "exploration"
EXHAUSTIVE = False
RULE = (
    "(a) random joint histories of 5-60 calls over a client/server pair: every public method of both classes, ids from {in progress, "
    "retired, never issued, 0, -1, 2^31}, SASL-in-progress and failing bind responses, notice of disconnection, whole/partial deliveries of "
    "real pipe bytes, crafted deliveries (wrong direction, unknown ids, garbage), and calls after failures and after closure; (b) "
    "bounded-exhaustive: every sequence of length <= 4 (quick) / <= 5 (thorough) over a 14-letter alphabet of representative calls per "
    "role. Every call is stepped through the model of DESIGN Appendix B (outcome class, state, emitted message) and a CLOSED-finality "
    "monitor; non-trivial = history containing a rejected or post-closure call; distinct by hash of the concrete call sequence"
)
ASSUMPTIONS = [
    "BEFORE_OPEN -> OPENED on a rejected call of a fresh server is tolerated (pinned by tests/test_session.py, DESIGN 7.4)",
    "model = DESIGN.md Appendix B, written from the SessionState/LDAPClient/LDAPServer docstrings and the statements C08-C11",
]
HOW_CLOSED = ["unbind-sent", "unbind-received", "notice-sent", "notice-received", "malformed-input", "wrong-direction-message", "unknown-id", "bind-with-outstanding"]
STATES = ["BEFORE_OPEN", "BINDING", "OPENED", "CLOSED"]


def shards(tier):
    return 16


def gates(c, tier):
    out = []
    if c.get("post-closure-calls", 0) < 1000:
        out.append(f"only {c.get('post-closure-calls', 0)} post-closure calls")
    for h in HOW_CLOSED:
        if c.get("closed-by:" + h, 0) == 0:
            out.append(f"no session closed by {h}")
    missing = []
    client_ops = ["bind_simple", "bind_sasl", "search", "extended", "unbind", "receive"]
    server_ops = ["bind_response", "extended_response", "entry", "reference", "done", "unbind", "receive"]
    for st in STATES:
        for op in client_ops:
            if st == "BEFORE_OPEN" or c.get(f"cell:client:{st}:{op}", 0):
                continue
            missing.append(f"client:{st}:{op}")
        for op in server_ops:
            if c.get(f"cell:server:{st}:{op}", 0) == 0:
                missing.append(f"server:{st}:{op}")
    for op in client_ops:
        if c.get(f"cell:client:BEFORE_OPEN:{op}", 0) == 0:
            missing.append(f"client:BEFORE_OPEN:{op}")
    if missing:
        out.append("state x op cells never exercised: " + ",".join(missing[:10]))
    if c.get("long-lived-sessions", 0) == 0:
        out.append("no long-lived session (ids > 256)")
    if c.get("base-session-terminations", 0) == 0:
        out.append("base class LDAPSession never driven")
    if c.get("exhaustive-histories", 0) == 0:
        out.append("bounded-exhaustive part did not run")
    if c.get("crafted:ms-adts-notice", 0) == 0:
        out.append("no notice of disconnection in Active Directory's form was delivered")
    return out


def _account(acc, drv):
    for ev in drv.trace:
        if ev.get("op") == "drain":
            continue
        acc.count("trace-events")
        acc.count(f"cell:{ev['side']}:{ev['state_before']}:{ev['op']}")
        if ev["state_before"] == "CLOSED":
            acc.count("post-closure-calls")
        if ev.get("tolerated"):
            acc.count("tolerated:BEFORE_OPEN->OPENED-on-rejected-call")
        if ev["outcome"] != "ok":
            acc.count("rejected-calls")
    if drv.model.how_closed:
        acc.count("closed-by:" + drv.model.how_closed)


def run_concrete(steps):
    """Replay a list of (side, action); return violations (stops at the first violating step)."""
    pair = H.Pair("drain")
    for side, action in steps:
        vio = pair.do(side, tuple(action))
        if vio:
            return vio, pair
    return [], pair


def base_session_cases():
    """The exported base class LDAPSession driven directly: an unbind or a notice of disconnection closes it for good
    (whatever was received before, in one delivery or several); malformed input closes it too."""
    from vf.ref import rfc4511

    ext = rfc4511.encode(("ExtendedRequest", 5, ("1.2.3", None), ()))
    done = rfc4511.encode(("SearchResultDone", 7, ((0, "", "", None),), ()))
    unbind = rfc4511.encode(("UnbindRequest", 9, (), ()))
    notice = rfc4511.encode(("ExtendedResponse", 0, ((52, "", "bye", None), NOTICE, None), ()))
    cases = []
    for pre in (b"", ext, done, ext + done):
        for term, how in ((unbind, "unbind"), (notice, "notice"), (b"\x04\x00", "malformed")):
            cases.append((how, [pre + term]))
            cases.append((how, [pre, term]))
            cases.append((how, [pre + term[:3], term[3:]]))
    return cases


def check_base_session(how, deliveries):
    out = []
    s = sl.LDAPSession()
    raised = False
    for d in deliveries:
        try:
            s.receive(d)
        except sl.ProtocolError:
            raised = True
        except Exception as e:
            return [(f"base-session:escape:{type(e).__name__}", f"LDAPSession.receive raised {type(e).__name__}: {e}")]
    if not raised or s.state.name != "CLOSED":
        return [(f"base-session:not-closed-by-{how}", f"LDAPSession given {how}: ProtocolError raised={raised}, state {s.state.name}")]
    for probe in (b"", deliveries[0] or b"\x30\x00"):
        try:
            s.receive(probe)
            out.append((f"closed-not-final:base-session:{how}", "a CLOSED LDAPSession accepted further input"))
        except sl.ProtocolError:
            pass
        except Exception as e:
            out.append((f"base-session:escape:{type(e).__name__}", str(e)))
    if s.state.name != "CLOSED" or s.data_to_send():
        out.append((f"closed-not-final:base-session:{how}", f"state {s.state.name} / bytes queued after closure"))
    return out


NOTICE = "1.3.6.1.4.1.1466.20036"


def run_shard(ctx: Ctx, acc: Acc):
    if ctx.shard % 4 == 3:
        for how, deliveries in base_session_cases():
            acc.case()
            acc.count("base-session-terminations")
            acc.nontrivial("base", how, tuple(deliveries))
            for key, what in check_base_session(how, deliveries):
                acc.violation(key, what, {"base": [how, deliveries]})
    n = ctx.scale(40_000, 1_000_000)
    for i in range(n):
        r = ctx.rng(i)
        pair = H.Pair("drain")
        length = r.choice([5, 10, 20, 40, 60])
        acc.case()
        bad = None
        if i % 64 == 5:  # a long-lived connection: message ids beyond 256 before the history proper starts
            bad = H.long_lived_prelude(pair, 260 + (i % 7)) or None
            acc.count("long-lived-sessions")
        for _ in range(length if not bad else 0):
            side, action = H.random_step(r, pair)
            vio = pair.do(side, action)
            if vio:
                bad = vio
                break
        _account(acc, pair.c)
        _account(acc, pair.s)
        nt = any(ev.get("outcome") != "ok" or ev.get("state_before") == "CLOSED" for d in (pair.c, pair.s) for ev in d.trace)
        if nt:
            acc.nontrivial(pair.concrete)
        if i < 2:
            acc.sample({"history": [(s, a[0]) for s, a in pair.concrete], "client_trace_tail": pair.c.trace[-3:], "server_trace_tail": pair.s.trace[-3:]})
        if bad:
            for key, what in bad:
                acc.violation(key, what, {"steps": pair.concrete, "trace_tail": (pair.c.trace[-4:], pair.s.trace[-4:])})
    # ---- bounded-exhaustive part, split over shards by first letter pair
    L = 5 if ctx.thorough else 4
    for role, letters in (("client", H.CLIENT_LETTERS), ("server", H.SERVER_LETTERS)):
        prefixes = list(itertools.product(range(14), repeat=2))
        mine = [p for k, p in enumerate(prefixes) if k % ctx.nshards == ctx.shard]
        for pre in mine:
            for rest in itertools.product(range(14), repeat=L - 2):
                seq = pre + rest
                drv = Driver(role, "drain")
                fresh = 10
                concrete = []
                acc.case()
                acc.count("exhaustive-histories")
                bad = None
                for li in seq:
                    if role == "client":
                        action = H.client_letter(letters[li], drv)
                    else:
                        fresh += 1
                        action = H.server_letter(letters[li], drv, fresh)
                    concrete.append((role[0], action))
                    vio = drv.step(action)
                    if vio:
                        bad = vio
                        break
                _account(acc, drv)
                if any(ev["outcome"] != "ok" or ev["state_before"] == "CLOSED" for ev in drv.trace):
                    acc.nontrivial(role, seq)
                if bad:
                    for key, what in bad:
                        acc.violation(key, what, {"single": role, "steps": concrete, "letters": [letters[x] for x in seq]})
    acc.count("crafted:ms-adts-notice", H.MS_ADTS_NOTICES)


def replay(w):
    if w.get("base"):
        return check_base_session(w["base"][0], [bytes(d) for d in w["base"][1]])
    steps = [(s, _fix(a)) for s, a in w["steps"]]
    if w.get("single"):
        drv = Driver(w["single"], "drain")
        for _, action in steps:
            vio = drv.step(action)
            if vio:
                return vio
        return []
    vio, _ = run_concrete(steps)
    return vio


def _fix(a):
    """JSON round trip turns tuples into lists and bytes into bytes (unjson); restore tuples."""
    return to_tuple(a)
