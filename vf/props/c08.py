"""C08 - session lifecycle follows the documented state machine; CLOSED is final (online trace checker vs model)."""
from __future__ import annotations

import itertools

from vf import absval as av
from vf.common import Acc, Ctx, to_tuple
from vf.gen import histories as H
from vf.mon.driver import Driver

sl = av.sl
LEVEL = "exploration"
EXHAUSTIVE = False
RULE = (
    "(a) random joint histories of 5-60 calls over a client/server pair: every public method of both classes, ids from {in progress, "
    "retired, never issued, 0, -1, 2^31}, SASL-in-progress and failing bind responses, notice of disconnection, whole/partial deliveries of "
    "real pipe bytes, crafted deliveries (wrong direction, unknown ids, garbage), and calls after failures and after closure; (b) "
    "bounded-exhaustive: every sequence of length <= 4 (quick) / <= 5 (thorough) over a 14-letter alphabet of representative calls per "
    "role. Every call is stepped through the model of DESIGN Appendix B (outcome class, state, emitted message) and a CLOSED-finality "
    "monitor; non-trivial = history containing a rejected or post-closure call; distinct by hash of the concrete call sequence"
)
ASSUMPTIONS = [
    "BEFORE_OPEN -> OPENED on a rejected call of a fresh server is tolerated (pinned by tests/test_session.py, DESIGN 7.4)",
    "model = DESIGN.md Appendix B, written from the SessionState/LDAPClient/LDAPServer docstrings and the statements C08-C11",
]
HOW_CLOSED = ["unbind-sent", "unbind-received", "notice-sent", "notice-received", "malformed-input", "wrong-direction-message", "unknown-id", "bind-with-outstanding"]
STATES = ["BEFORE_OPEN", "BINDING", "OPENED", "CLOSED"]


def shards(tier):
    return 16


def gates(c, tier):
    out = []
    if c.get("post-closure-calls", 0) < 1000:
        out.append(f"only {c.get('post-closure-calls', 0)} post-closure calls")
    for h in HOW_CLOSED:
        if c.get("closed-by:" + h, 0) == 0:
            out.append(f"no session closed by {h}")
    missing = []
    client_ops = ["bind_simple", "bind_sasl", "search", "extended", "unbind", "receive"]
    server_ops = ["bind_response", "extended_response", "entry", "reference", "done", "unbind", "receive"]
    for st in STATES:
        for op in client_ops:
            if st == "BEFORE_OPEN" or c.get(f"cell:client:{st}:{op}", 0):
                continue
            missing.append(f"client:{st}:{op}")
        for op in server_ops:
            if c.get(f"cell:server:{st}:{op}", 0) == 0:
                missing.append(f"server:{st}:{op}")
    for op in client_ops:
        if c.get(f"cell:client:BEFORE_OPEN:{op}", 0) == 0:
            missing.append(f"client:BEFORE_OPEN:{op}")
    if missing:
        out.append("state x op cells never exercised: " + ",".join(missing[:10]))
    if c.get("long-lived-sessions", 0) == 0:
        out.append("no long-lived session (ids > 256)")
    if c.get("exhaustive-histories", 0) == 0:
        out.append("bounded-exhaustive part did not run")
    return out


def _account(acc, drv):
    for ev in drv.trace:
        if ev.get("op") == "drain":
            continue
        acc.count("trace-events")
        acc.count(f"cell:{ev['side']}:{ev['state_before']}:{ev['op']}")
        if ev["state_before"] == "CLOSED":
            acc.count("post-closure-calls")
        if ev.get("tolerated"):
            acc.count("tolerated:BEFORE_OPEN->OPENED-on-rejected-call")
        if ev["outcome"] != "ok":
            acc.count("rejected-calls")
    if drv.model.how_closed:
        acc.count("closed-by:" + drv.model.how_closed)


def run_concrete(steps):
    """Replay a list of (side, action); return violations (stops at the first violating step)."""
    pair = H.Pair("drain")
    for side, action in steps:
        vio = pair.do(side, tuple(action))
        if vio:
            return vio, pair
    return [], pair


def run_shard(ctx: Ctx, acc: Acc):
    n = ctx.scale(40_000, 1_000_000)
    for i in range(n):
        r = ctx.rng(i)
        pair = H.Pair("drain")
        length = r.choice([5, 10, 20, 40, 60])
        acc.case()
        bad = None
        if i % 64 == 5:  # a long-lived connection: message ids beyond 256 before the history proper starts
            bad = H.long_lived_prelude(pair, 260 + (i % 7)) or None
            acc.count("long-lived-sessions")
        for _ in range(length if not bad else 0):
            side, action = H.random_step(r, pair)
            vio = pair.do(side, action)
            if vio:
                bad = vio
                break
        _account(acc, pair.c)
        _account(acc, pair.s)
        nt = any(ev.get("outcome") != "ok" or ev.get("state_before") == "CLOSED" for d in (pair.c, pair.s) for ev in d.trace)
        if nt:
            acc.nontrivial(pair.concrete)
        if i < 2:
            acc.sample({"history": [(s, a[0]) for s, a in pair.concrete], "client_trace_tail": pair.c.trace[-3:], "server_trace_tail": pair.s.trace[-3:]})
        if bad:
            for key, what in bad:
                acc.violation(key, what, {"steps": pair.concrete, "trace_tail": (pair.c.trace[-4:], pair.s.trace[-4:])})
    # ---- bounded-exhaustive part, split over shards by first letter pair
    L = 5 if ctx.thorough else 4
    for role, letters in (("client", H.CLIENT_LETTERS), ("server", H.SERVER_LETTERS)):
        prefixes = list(itertools.product(range(14), repeat=2))
        mine = [p for k, p in enumerate(prefixes) if k % ctx.nshards == ctx.shard]
        for pre in mine:
            for rest in itertools.product(range(14), repeat=L - 2):
                seq = pre + rest
                drv = Driver(role, "drain")
                fresh = 10
                concrete = []
                acc.case()
                acc.count("exhaustive-histories")
                bad = None
                for li in seq:
                    if role == "client":
                        action = H.client_letter(letters[li], drv)
                    else:
                        fresh += 1
                        action = H.server_letter(letters[li], drv, fresh)
                    concrete.append((role[0], action))
                    vio = drv.step(action)
                    if vio:
                        bad = vio
                        break
                _account(acc, drv)
                if any(ev["outcome"] != "ok" or ev["state_before"] == "CLOSED" for ev in drv.trace):
                    acc.nontrivial(role, seq)
                if bad:
                    for key, what in bad:
                        acc.violation(key, what, {"single": role, "steps": concrete, "letters": [letters[x] for x in seq]})


def replay(w):
    steps = [(s, _fix(a)) for s, a in w["steps"]]
    if w.get("single"):
        drv = Driver(w["single"], "drain")
        for _, action in steps:
            vio = drv.step(action)
            if vio:
                return vio
        return []
    vio, _ = run_concrete(steps)
    return vio


def _fix(a):
    """JSON round trip turns tuples into lists and bytes into bytes (unjson); restore tuples."""
    return to_tuple(a)
