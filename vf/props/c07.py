"""C07 - BER primitives agree with an arithmetic oracle in both directions (+ icontract post-conditions)."""
from __future__ import annotations

from vf import absval as av
from vf.common import Acc, Ctx, norm_msg
from vf.gen import values as gv
from vf.mon import contracts
from vf.ref import ber

sl = av.sl
A = sl.asn1
LEVEL = "exploration"
EXHAUSTIVE = False
RULE = (
    "integers: every value of [-70000, 70000] (exhaustive, split over shards) plus +-2^k+-{0,1,2} (k<=512), carry chains "
    "+-m*2^(8j), random to 2^2048, written and read as INTEGER and ENUMERATED with default and custom tags; reads of minimal, "
    "0x00/0xFF-padded and random content; tags of 4 classes x boundary tag numbers x both forms; lengths across 127/128/255/256/"
    "65535/65536; booleans with every content octet; octet strings; random nested sequence/set trees read back structurally with a "
    "trailer; random interleavings of peek_header / read_* (with and without header=) / skip_value on one reader against a reference cursor; non-trivial = |v| >= 128, multi-octet tag or length, padded content, or nesting; distinct by hash of the literal case"
)
ASSUMPTIONS = [
    "UNIVERSAL tag numbers are restricted to the defined TypeTagNumber members (DESIGN 7.1)",
    "oracle: int.to_bytes/int.from_bytes(signed=True) and the X.690 8.1.2/8.1.3 formulas in vf/ref/ber.py",
]


def shards(tier):
    return 16


def gates(c, tier):
    # The deciding monitor is the boundary oracle (ASN1Writer / ASN1Reader against the arithmetic reference); the icontract
    # post-conditions on the module-level primitives are a second, inner monitor whose evaluation counts are reported as
    # evidence ("contract:<name>") but do not gate: a refactor may stop routing the classes through those functions.
    need = ["int-write", "int-read-padded", "int-read-random", "enum", "tag", "tag-multioctet", "len-long", "bool", "octets", "nest",
            "child-refuses-sibling", "reader-op-sequences", "writable-input", "truncated-with-header", "header-truncations", "writer-interleavings",
            "failed-read-keeps-position", "input-buffer-kinds", "push-sequence-tags", "int-beyond-4300-digits", "repo-tests-under-contracts:runs"]
    return [f"never exercised: {k}" for k in need if c.get(k, 0) == 0]


TRAILERS = [b"", b"\x00", b"\x02\x01\x05", b"\xff\xff\xff", b"\x30\x80"]


def _tlv(cls, pc, num, content):
    return ber.ident_octets(cls, pc, num) + ber.length_octets(len(content)) + content


def chk_int(v, tag_t, enum, trailer):
    """tag_t: None or (cls, num, pc)."""
    out = []
    tag = A.ASN1Tag(A.TagClass(tag_t[0]), tag_t[1], tag_t[2]) if tag_t else None
    w = A.ASN1Writer()
    try:
        (w.write_enumerated if enum else w.write_integer)(v, tag=tag)
        data = bytes(w.get_data())
    except Exception as e:
        return [(f"int-write-exc:{norm_msg(e)}", f"writing {v} raised {type(e).__name__}: {e}")]
    t_exp = tag_t or (0, 10 if enum else 2, False)
    exp = _tlv(t_exp[0], t_exp[2], t_exp[1], ber.int_content(v))
    if data != exp:
        out.append(("int-write-octets", f"{'ENUMERATED' if enum else 'INTEGER'} {v}: wrote {data.hex()} expected {exp.hex()}"))
    rd = A.ASN1Reader(exp + trailer)
    try:
        got = rd.read_enumerated(int, tag=tag) if enum else rd.read_integer(tag=tag)
        if got != v or type(got) is not int:
            out.append(("int-read-value", f"read {got!r} from {exp.hex()} expected {v}"))
        rem = rd.get_remaining_data()
        if rem != trailer:
            out.append(("int-read-consumed", f"reader left {rem.hex()} expected {trailer.hex()}"))
    except Exception as e:
        out.append((f"int-read-exc:{norm_msg(e)}", f"reading {exp.hex()} ({v}) raised {type(e).__name__}: {e}"))
    # the same value read through a peeked header only (no tag= given): the header carries the tag, universal or not
    try:
        rd2 = A.ASN1Reader(exp + trailer)
        h = rd2.peek_header()
        got2 = rd2.read_enumerated(int, header=h) if enum else rd2.read_integer(header=h)
        if got2 != v or rd2.get_remaining_data() != trailer:
            out.append(("int-read-with-header", f"{'ENUMERATED' if enum else 'INTEGER'} with tag {t_exp} read through header= gave {_show(got2)}"))
    except Exception as e:
        out.append((f"int-read-with-header-exc:{'enum' if enum else 'int'}:{'implicit-tag' if tag_t else 'universal-tag'}:{type(e).__name__}", f"read_{'enumerated' if enum else 'integer'}(header=peek_header()) on tag {t_exp} raised {type(e).__name__}: {e}"))
    return out


def _show(v):
    """ints are reported in hex (no decimal conversion: CPython refuses > 4300 digits by default)."""
    h = hex(v)
    return h if len(h) <= 70 else f"{h[:40]}...({v.bit_length()} bits)"


def chk_bigint(seed):
    """An integer of more decimal digits than CPython converts between int and str by default: the codec is arithmetic
    on octets and must not depend on that limit."""
    import random as _random

    r = _random.Random(seed)
    v = r.choice([1, -1]) * r.randrange(1 << 14400, 1 << r.choice([14500, 20000, 40000]))
    enum = r.random() < 0.3
    out = []
    w = A.ASN1Writer()
    try:
        (w.write_enumerated if enum else w.write_integer)(v)
        data = bytes(w.get_data())
    except Exception as e:
        return [(f"int-write-exc:big:{type(e).__name__}", f"writing a {v.bit_length()}-bit integer raised {type(e).__name__}: {str(e)[:120]}")]
    exp = _tlv(0, False, 10 if enum else 2, ber.int_content(v))
    if data != exp:
        out.append(("int-write-octets:big", f"{v.bit_length()}-bit integer: wrote {len(data)} octets starting {data[:12].hex()}, expected {len(exp)} starting {exp[:12].hex()}"))
    try:
        rd = A.ASN1Reader(exp + b"\x05\x00")
        got = rd.read_enumerated(int) if enum else rd.read_integer()
        if got != v:
            out.append(("int-read-value:big", f"{v.bit_length()}-bit integer read back as {_show(got)}"))
        if bytes(rd.get_remaining_data()) != b"\x05\x00":
            out.append(("int-read-consumed:big", "wrong consumption"))
    except Exception as e:
        out.append((f"int-read-exc:big:{type(e).__name__}", f"reading a {v.bit_length()}-bit integer raised {type(e).__name__}: {str(e)[:120]}"))
    return out


def chk_int_content(content, enum, trailer):
    out = []
    exp = int.from_bytes(content, "big", signed=True)
    data = _tlv(0, False, 10 if enum else 2, content)
    rd = A.ASN1Reader(data + trailer)
    try:
        got = rd.read_enumerated(int) if enum else rd.read_integer()
        if got != exp:
            out.append(("int-read-content", f"content {content.hex()} read as {got} expected {exp}"))
        if rd.get_remaining_data() != trailer:
            out.append(("int-read-consumed", f"content {content.hex()}: wrong consumption"))
    except Exception as e:
        out.append((f"int-read-exc:{norm_msg(e)}", f"content {content.hex()} raised {type(e).__name__}: {e}"))
    return out


def chk_writable_input(v, kind):
    """Reading from a bytearray / writable memoryview must not modify the caller's buffer; reading the same bytes
    again must give the same value."""
    out = []
    enc = _tlv(0, False, 2, ber.int_content(v))
    buf = bytearray(enc + b"\x04\x01z")
    src = buf if kind == 0 else memoryview(buf)
    try:
        a = A.ASN1Reader(src).read_integer()
        b = A.ASN1Reader(src).read_integer()
        rd = A.ASN1Reader(src)
        h = rd.peek_header()
        c = rd.read_integer(header=h)
        rest = rd.read_octet_string()
    except Exception as e:
        return [(f"writable-input-exc:{norm_msg(e)}", f"{type(e).__name__}: {e}")]
    if bytes(buf) != enc + b"\x04\x01z":
        out.append(("reader-modified-callers-buffer", f"reading INTEGER {v} from a {'bytearray' if kind == 0 else 'memoryview'} rewrote the input to {bytes(buf).hex()}"))
    if not (a == b == c == v) or rest != b"z":
        out.append(("re-read-differs", f"INTEGER {v}: successive reads of the same buffer gave {a}, {b}, {c}"))
    return out


VIEW_FORMATS = ["bytes", "bytearray", "view-B", "view-b", "view-c", "array-b", "slice-of-larger"]


def _as_input(data: bytes, fmt: str):
    import array

    if fmt == "bytes":
        return data
    if fmt == "bytearray":
        return bytearray(data)
    if fmt == "view-B":
        return memoryview(data)
    if fmt == "view-b":
        return memoryview(data).cast("b")  # signed char items: indexing yields -128..127
    if fmt == "view-c":
        return memoryview(data).cast("c")  # char items: indexing yields length-1 bytes
    if fmt == "array-b":
        return memoryview(array.array("b", [x - 256 if x > 127 else x for x in data]))
    return memoryview(b"\x30\x7f" + data + b"\xff\xff")[2 : 2 + len(data)]


def chk_view_formats(r):
    """The same octets read through every kind of buffer a caller may hold (bytes, bytearray, memoryviews of unsigned,
    signed and char items, a slice of a larger buffer) denote the same values."""
    out = []
    v = r.choice([1, -1]) * r.randrange(1 << r.choice([7, 8, 15, 16, 31, 64]), 1 << 70)
    oct_ = r.randbytes(r.choice([0, 5, 127, 128, 129, 200, 255, 256, 300]))
    num = r.choice([5, 30, 31, 127, 128, 200, 255, 16384])
    hi = r.randbytes(r.choice([1, 128, 130, 255]))
    bo = r.choice([0x01, 0x7F, 0x80, 0xFF])
    data = (_tlv(0, False, 2, ber.int_content(v)) + _tlv(0, False, 4, oct_) + _tlv(2, False, num, hi) + _tlv(0, False, 1, bytes([bo]))
            + _tlv(0, True, 16, _tlv(0, False, 10, ber.int_content(-v)) + _tlv(0, False, 4, oct_)))
    want = (v, oct_, (2, num, False, len(hi)), hi, True, -v, oct_)
    for fmt in VIEW_FORMATS:
        try:
            rd = A.ASN1Reader(_as_input(data, fmt))
            a = rd.read_integer()
            b = rd.read_octet_string()
            h = rd.peek_header()
            c = rd.read_octet_string(tag=h.tag)
            d = rd.read_boolean()
            sq = rd.read_sequence()
            e = sq.read_enumerated(int)
            f = sq.read_octet_string()
            got = (a, bytes(b), (int(h.tag.tag_class), h.tag.tag_number, h.tag.is_constructed, h.length), bytes(c), d, e, bytes(f))
            rest = bytes(rd.get_remaining_data())
        except Exception as ex:
            out.append((f"view-format-exc:{fmt}:{type(ex).__name__}", f"reading well-formed elements from a {fmt} input raised {type(ex).__name__}: {ex}"))
            continue
        if got != want or rest != b"":
            out.append((f"view-format-differs:{fmt}", f"the same octets read from a {fmt} input gave {str(got)[:160]}, expected {str(want)[:160]}"))
    return out


def chk_push_tags(r):
    """The tag given to push_sequence / push_set is the tag written: class, number and form as given."""
    out = []
    cls = r.randrange(4)
    num = r.choice([0, 1, 5, 16, 17, 30, 31, 127, 128, 16384])
    pc = r.random() < 0.6
    if cls == 0 and num not in (16, 17):
        cls = 2
    inner = r.randrange(-300, 300)
    for which in ("seq", "set"):
        w = A.ASN1Writer()
        tag = A.ASN1Tag(A.TagClass(cls), A.TypeTagNumber(num) if cls == 0 else num, pc)
        try:
            with (w.push_sequence(tag) if which == "seq" else w.push_set(tag)) as c:
                c.write_integer(inner)
            data = bytes(w.get_data())
        except Exception as e:
            out.append((f"push-tag-exc:{type(e).__name__}", f"push_{which} with tag {(cls, num, pc)} raised {type(e).__name__}: {e}"))
            continue
        exp = _tlv(cls, pc, num, _tlv(0, False, 2, ber.int_content(inner)))
        if data != exp:
            out.append((f"push-tag-octets:{'constructed' if pc else 'primitive'}-form", f"push_{which} with tag {(cls, num, pc)} wrote {data[:12].hex()} expected {exp[:12].hex()}"))
    return out


def chk_truncated_with_header(r):
    """A value whose content is not fully available must be refused (NotEnougData) also when header= is supplied."""
    out = []
    content = r.randbytes(r.choice([2, 4, 6, 200]))
    kind = r.choice(["int", "oct", "seq"])
    num, pc = {"int": (2, False), "oct": (4, False), "seq": (16, True)}[kind]
    full = _tlv(0, pc, num, content)
    cut = r.randrange(len(full) - len(content), len(full))  # header complete, content short (possibly empty)
    for with_header in (False, True):
        rd = A.ASN1Reader(full[:cut])
        try:
            h = rd.peek_header() if with_header else None
            if kind == "int":
                got = rd.read_integer(header=h)
            elif kind == "oct":
                got = rd.read_octet_string(header=h)
            else:
                got = rd.read_sequence(header=h).get_remaining_data()
            out.append((f"truncated-value-returned:{kind}:{'header' if with_header else 'noheader'}", f"{kind} with {len(content)} content octets declared but only {cut - (len(full) - len(content))} available was read as {got!r}"))
        except A.NotEnougData:
            pass
        except Exception as e:
            out.append((f"truncated-value-exc:{kind}:{type(e).__name__}", f"truncated {kind}: {type(e).__name__}: {e} (expected NotEnougData)"))
    return out


def chk_header_truncations(r):
    """Every proper prefix of an identifier+length header (incl. zero-padded long forms) must be refused with
    NotEnougData by peek_header and by the read functions - never read as a shorter number."""
    out = []
    cls = r.randrange(1, 4)
    num = r.choice([0, 5, 30, 31, 127, 128, 16384])
    n = r.choice([0, 1, 127, 128, 255, 256, 300, 65536])
    lo = ber.length_octets(n, r.choice(["min", 1, 2, 3, 4, 5]))
    hdr = ber.ident_octets(cls, False, num) + lo
    data = hdr + b"\x00" * min(n, 8)
    for cut in range(0, len(hdr)):
        for fn in ("peek", "read"):
            rd = A.ASN1Reader(data[:cut])
            try:
                got = rd.peek_header() if fn == "peek" else rd.read_octet_string(tag=A.ASN1Tag(A.TagClass(cls), num, False))
                out.append((f"truncated-header-accepted:{fn}", f"header {hdr.hex()} cut after {cut} octets was read as {got!r}"))
                return out
            except A.NotEnougData:
                pass
            except Exception as e:
                out.append((f"truncated-header-exc:{type(e).__name__}", f"header {hdr.hex()} cut after {cut} octets: {type(e).__name__}: {e}"))
                return out
    return out


def chk_writer_interleaving(r):
    """Several child writers of one parent open at the same time, filled in random order, parent written in between.
    Reference semantics (ASN1Writer docs): each child collects its own content and is appended to its parent, as one TLV,
    when its with-block ends; a child that is never closed contributes nothing."""
    out = []
    root = A.ASN1Writer()
    open_children = []  # (writer object, context manager, reference record)
    ref_root = []  # reference: list of encoded TLVs in the order they reach the parent
    n_ops = r.choice([4, 8, 14])
    try:
        for _ in range(n_ops):
            x = r.random()
            if x < 0.3 and len(open_children) < 4:
                kind = r.choice(["seq", "set"])
                tag = None
                if r.random() < 0.3:
                    tag = (r.choice([1, 2]), r.choice([0, 5, 31, 300]), True)
                w = (root.push_sequence if kind == "seq" else root.push_set)(A.ASN1Tag(A.TagClass(tag[0]), tag[1], tag[2]) if tag else None)
                w.__enter__()
                open_children.append((w, {"kind": kind, "tag": tag, "content": []}))
            elif x < 0.6 and open_children:
                w, rec = r.choice(open_children)
                v = r.randbytes(r.choice([0, 1, 3]))
                w.write_octet_string(v)
                rec["content"].append(_tlv(0, False, 4, v))
            elif x < 0.75:
                v = r.randrange(-300, 300)
                root.write_integer(v)
                ref_root.append(_tlv(0, False, 2, ber.int_content(v)))
            elif open_children:
                k = r.randrange(len(open_children))
                w, rec = open_children.pop(k)
                w.__exit__(None, None, None)
                body = b"".join(rec["content"])
                t = rec["tag"] or (0, 16 if rec["kind"] == "seq" else 17, True)
                ref_root.append(_tlv(t[0], True, t[1], body))
        # children left open contribute nothing
        got = bytes(root.get_data())
    except Exception as e:
        return [(f"writer-interleaving-exc:{norm_msg(e)}", f"{type(e).__name__}: {e}")]
    exp = b"".join(ref_root)
    if got != exp:
        out.append(("writer-interleaving-octets", f"writers used out of strict nesting order produced {got[:40].hex()} expected {exp[:40].hex()}"))
    return out


def chk_failed_read_keeps_position(r):
    """A read that raises ValueError (wrong expected tag) must not consume anything: the value is still there."""
    out = []
    v = r.randbytes(r.choice([0, 1, 5]))
    data = _tlv(0, False, 4, v) + _tlv(0, False, 2, b"\x07")
    rd = A.ASN1Reader(data)
    for attempt in (lambda: rd.read_integer(), lambda: rd.read_boolean(), lambda: rd.read_sequence(), lambda: rd.read_octet_string(tag=A.ASN1Tag(A.TagClass.CONTEXT_SPECIFIC, 3, False))):
        try:
            attempt()
            return [("mismatched-read-accepted", "a read with the wrong expected tag returned a value")]
        except ValueError:
            pass
        except Exception as e:
            return [(f"mismatched-read-exc:{type(e).__name__}", f"{type(e).__name__}: {e}")]
    try:
        if rd.read_octet_string() != v or rd.read_integer() != 7 or rd.get_remaining_data() != b"":
            out.append(("failed-read-moved-the-reader", "after reads that raised ValueError the next read did not return the value that was still unread"))
    except Exception as e:
        out.append(("failed-read-moved-the-reader", f"after reads that raised ValueError: {type(e).__name__}: {e}"))
    return out


def chk_tag(cls, num, pc, length, trailer):
    out = []
    content = bytes([0x5A]) * length
    tag = A.ASN1Tag(A.TagClass(cls), A.TypeTagNumber(num) if cls == 0 else num, pc)
    w = A.ASN1Writer()
    try:
        w.write_octet_string(content, tag=tag)
        data = bytes(w.get_data())
    except Exception as e:
        return [(f"tag-write-exc:{norm_msg(e)}", f"tag {(cls, num, pc)} len {length}: {type(e).__name__}: {e}")]
    exp = _tlv(cls, pc, num, content)
    if data != exp:
        out.append(("tag-write-octets", f"tag {(cls, num, pc)} len {length}: wrote {data[:16].hex()} expected {exp[:16].hex()}"))
    rd = A.ASN1Reader(exp + trailer)
    try:
        h = rd.peek_header()
        hl = len(exp) - length
        if (int(h.tag.tag_class), int(h.tag.tag_number), bool(h.tag.is_constructed), h.tag_length, h.length) != (cls, num, pc, hl, length):
            out.append(("tag-read-header", f"{exp[:hl].hex()}: peek_header gave {h}"))
        got = rd.read_octet_string(tag=tag)
        if got != content:
            out.append(("tag-read-content", f"tag {(cls, num, pc)} len {length}: content differs"))
        if rd.get_remaining_data() != trailer:
            out.append(("tag-read-consumed", f"tag {(cls, num, pc)} len {length}: wrong consumption"))
        # reading with header= must agree
        rd2 = A.ASN1Reader(exp + trailer)
        got2 = rd2.read_octet_string(header=rd2.peek_header())
        if got2 != content or rd2.get_remaining_data() != trailer:
            out.append(("tag-read-with-header", f"tag {(cls, num, pc)} len {length}: header= path differs"))
        # skip_value must land exactly after the value
        rd3 = A.ASN1Reader(exp + trailer)
        rd3.skip_value(rd3.peek_header())
        if rd3.get_remaining_data() != trailer:
            out.append(("skip-consumed", f"tag {(cls, num, pc)} len {length}: skip_value wrong"))
    except Exception as e:
        out.append((f"tag-read-exc:{norm_msg(e)}", f"tag {(cls, num, pc)} len {length}: {type(e).__name__}: {e}"))
    return out


def chk_bool(octet, trailer):
    out = []
    for val in (True, False):
        w = A.ASN1Writer()
        w.write_boolean(val)
        if bytes(w.get_data()) != (b"\x01\x01\xff" if val else b"\x01\x01\x00"):
            out.append(("bool-write", f"{val} written as {bytes(w.get_data()).hex()}"))
    rd = A.ASN1Reader(bytes([1, 1, octet]) + trailer)
    try:
        got = rd.read_boolean()
        if got is not (octet != 0):
            out.append(("bool-read", f"content {octet:02x} read as {got!r}"))
        if rd.get_remaining_data() != trailer:
            out.append(("bool-consumed", "wrong consumption"))
    except Exception as e:
        out.append((f"bool-exc:{norm_msg(e)}", f"{type(e).__name__}: {e}"))
    return out


def chk_long_length_forms(value: bytes, nlen: int, trailer):
    """Non-minimal long-form length octets must read back identically (reader side of 'every length')."""
    out = []
    data = b"\x04" + ber.length_octets(len(value), nlen) + value
    rd = A.ASN1Reader(data + trailer)
    try:
        h = rd.peek_header()
        if h.length != len(value) or h.tag_length != len(data) - len(value):
            out.append(("len-read-header", f"length octets {data[1:len(data)-len(value)].hex()} read as {h}"))
        if rd.read_octet_string() != value or rd.get_remaining_data() != trailer:
            out.append(("len-read-content", "content/consumption differs"))
    except Exception as e:
        out.append((f"len-read-exc:{norm_msg(e)}", f"{type(e).__name__}: {e}"))
    return out


def g_tree(r, depth):
    """('seq'|'set', tagspec|None, [children]) | ('int', v) | ('oct', b) | ('bool', v)"""
    if depth == 0 or r.random() < 0.3:
        k = r.choice(["int", "oct", "bool"])
        if k == "int":
            return ("int", gv.g_int(r))
        if k == "oct":
            return ("oct", r.randbytes(r.choice([0, 1, 3, 127, 128, 200])))
        return ("bool", r.random() < 0.5)
    tagspec = None
    if r.random() < 0.4:
        tagspec = (r.choice([1, 2, 3]), r.choice([0, 1, 30, 31, 127, 128, 16384]), True)
    return (r.choice(["seq", "set"]), tagspec, [g_tree(r, depth - 1) for _ in range(r.choice([0, 1, 2, 3]))])


def w_tree(w, t):
    if t[0] == "int":
        w.write_integer(t[1])
    elif t[0] == "oct":
        w.write_octet_string(t[1])
    elif t[0] == "bool":
        w.write_boolean(t[1])
    else:
        tag = A.ASN1Tag(A.TagClass(t[1][0]), t[1][1], t[1][2]) if t[1] else None
        with (w.push_sequence(tag) if t[0] == "seq" else w.push_set(tag)) as inner:
            for c in t[2]:
                w_tree(inner, c)


def ref_tree(t) -> bytes:
    if t[0] == "int":
        return _tlv(0, False, 2, ber.int_content(t[1]))
    if t[0] == "oct":
        return _tlv(0, False, 4, t[1])
    if t[0] == "bool":
        return _tlv(0, False, 1, b"\xff" if t[1] else b"\x00")
    body = b"".join(ref_tree(c) for c in t[2])
    if t[1]:
        return _tlv(t[1][0], True, t[1][1], body)
    return _tlv(0, True, 16 if t[0] == "seq" else 17, body)


def r_tree(rd, t):
    if t[0] == "int":
        return ("int", rd.read_integer())
    if t[0] == "oct":
        return ("oct", rd.read_octet_string())
    if t[0] == "bool":
        return ("bool", rd.read_boolean())
    tag = A.ASN1Tag(A.TagClass(t[1][0]), t[1][1], t[1][2]) if t[1] else None
    inner = rd.read_sequence(tag=tag) if t[0] == "seq" else rd.read_set(tag=tag)
    kids = [r_tree(inner, c) for c in t[2]]
    if inner:
        raise AssertionError("child reader not exhausted")
    return (t[0], t[1], kids)


def chk_tree(t, trailer):
    out = []
    w = A.ASN1Writer()
    try:
        w_tree(w, t)
        data = bytes(w.get_data())
    except Exception as e:
        return [(f"nest-write-exc:{norm_msg(e)}", f"{type(e).__name__}: {e}")]
    exp = ref_tree(t)
    if data != exp:
        out.append(("nest-write-octets", f"nested structure wrote {data[:24].hex()} expected {exp[:24].hex()}"))
    rd = A.ASN1Reader(exp + trailer)
    try:
        got = r_tree(rd, t)
        if got != t:
            out.append(("nest-read", "nested structure read back differently"))
        if rd.get_remaining_data() != trailer:
            out.append(("nest-consumed", "nested structure: wrong consumption"))
    except Exception as e:
        out.append((f"nest-read-exc:{norm_msg(e)}", f"{type(e).__name__}: {e}"))
    return out


def chk_child_refuses(r):
    """A value whose length runs past its parent must not be readable from the child reader."""
    sib = b"\x04\x03abc"
    inner_decl = r.choice([2, 3, 5, 200])
    child = b"\x04" + ber.length_octets(inner_decl) + b"x"  # only 1 content byte inside the parent
    parent = _tlv(0, True, 16, child)
    rd = A.ASN1Reader(parent + sib)
    seq = rd.read_sequence()
    try:
        v = seq.read_octet_string()
        return [("child-reads-into-sibling", f"child reader returned {v!r} from beyond its parent")]
    except A.NotEnougData:
        pass
    except Exception as e:
        return [(f"child-exc:{norm_msg(e)}", f"{type(e).__name__}: {e}")]
    if rd.read_octet_string() != b"abc":
        return [("sibling-damaged", "sibling after the parent not intact")]
    return []


def g_items(r, n):
    """A flat series of TLVs with their reference description: (kind, value, tag triple, encoded bytes)."""
    items = []
    for _ in range(n):
        k = r.choice(["int", "enum", "oct", "bool", "seq", "set", "ctx"])
        if k == "int":
            v = gv.g_int(r)
            items.append((k, v, (0, 2, False), _tlv(0, False, 2, ber.int_content(v))))
        elif k == "enum":
            v = r.choice([0, 1, 2, 3, 80, 127, 128, 4096])
            items.append((k, v, (0, 10, False), _tlv(0, False, 10, ber.int_content(v))))
        elif k == "oct":
            v = r.randbytes(r.choice([0, 1, 2, 127, 128]))
            items.append((k, v, (0, 4, False), _tlv(0, False, 4, v)))
        elif k == "bool":
            v = r.random() < 0.5
            items.append((k, v, (0, 1, False), _tlv(0, False, 1, b"\xff" if v else b"\x00")))
        elif k in ("seq", "set"):
            inner = r.randbytes(0) + _tlv(0, False, 2, ber.int_content(r.randrange(0, 300))) * r.choice([0, 1, 2])
            num = 16 if k == "seq" else 17
            items.append((k, inner, (0, num, True), _tlv(0, True, num, inner)))
        else:
            num = r.choice([0, 3, 7, 30, 31, 99, 1024])
            v = r.randbytes(r.choice([0, 1, 5]))
            items.append((k, v, (2, num, False), _tlv(2, False, num, v)))
    return items


def chk_reader_ops(items, ops, trailer):
    """Random interleaving of peek_header / read_* (with and without header=) / skip_value on one reader, against a
    reference cursor. ops: list of op names, one per step; the step consumes the next item unless it is 'peek'."""
    out = []
    data = b"".join(it[3] for it in items) + trailer
    rd = A.ASN1Reader(data)
    pos = 0
    held = None  # header returned by the last peek, valid for item `pos`
    for op in ops:
        if pos >= len(items):
            break
        kind, val, tag, enc = items[pos]
        try:
            if op == "peek":
                h = rd.peek_header()
                exp = (tag[0], tag[1], tag[2], _hdr_len(enc), len(enc) - _hdr_len(enc))
                got = (int(h.tag.tag_class), int(h.tag.tag_number), bool(h.tag.is_constructed), h.tag_length, h.length)
                if got != exp:
                    out.append(("reader-peek-stale-or-wrong", f"item {pos} ({kind}): peek_header gave {got}, the next value's header is {exp}"))
                    return out
                held = h
                continue
            use_header = held if (op.endswith("+h") and held is not None) else None
            base = op.replace("+h", "")
            if base == "skip":
                rd.skip_value(held if held is not None else rd.peek_header())
                res = val
            elif kind == "int":
                res = rd.read_integer(header=use_header)
            elif kind == "enum":
                res = rd.read_enumerated(int, header=use_header)
            elif kind == "oct":
                res = rd.read_octet_string(header=use_header)
            elif kind == "bool":
                res = rd.read_boolean(header=use_header)
            elif kind == "seq":
                res = rd.read_sequence(header=use_header).get_remaining_data()
            elif kind == "set":
                res = rd.read_set(header=use_header).get_remaining_data()
            else:
                res = rd.read_octet_string(tag=A.ASN1Tag(A.TagClass(tag[0]), tag[1], tag[2]), header=use_header)
            if res != val:
                out.append(("reader-sequence-value", f"item {pos} ({kind}) read as {res!r}, expected {val!r} (op {op})"))
                return out
            held = None
            pos += 1
        except Exception as e:
            out.append((f"reader-sequence-exc:{norm_msg(e)}", f"item {pos} ({kind}) op {op}: {type(e).__name__}: {e}"))
            return out
    exp_rest = b"".join(it[3] for it in items[pos:]) + trailer
    if rd.get_remaining_data() != exp_rest:
        out.append(("reader-sequence-consumed", f"after {pos} items the reader's remaining data is not the unread suffix"))
    return out


def _hdr_len(enc: bytes) -> int:
    cls, pc, num, cs, ln = ber.read_header(enc, 0, len(enc))
    return cs


READER_OPS = ["peek", "peek", "read", "read", "read+h", "skip"]


TAG_NUMS = list(range(0, 41)) + [126, 127, 128, 129, 255, 256, 16383, 16384, 2**21 - 1, 2**21, 2**28, 2**35]
UNIV_NUMS = sorted({int(x) for x in A.TypeTagNumber})
LENS = [0, 1, 126, 127, 128, 129, 255, 256, 257, 16383, 16384, 32767, 32768, 65535, 65536, 65537]


def _drain_contracts(acc, witness):
    for name, what, wit in contracts.take():
        acc.violation("contract:" + name, f"post-condition of sansldap.asn1.{name} broken: {what}", {"kind": "contract", "contract": name, "case": witness, "contract_witness": wit})


def run_case(kind, args):
    if kind == "int":
        return chk_int(args[0], tuple(args[1]) if args[1] else None, args[2], bytes(args[3]))
    if kind == "content":
        return chk_int_content(bytes(args[0]), args[1], bytes(args[2]))
    if kind == "tag":
        return chk_tag(args[0], args[1], args[2], args[3], bytes(args[4]))
    if kind == "bool":
        return chk_bool(args[0], bytes(args[1]))
    if kind == "lenform":
        return chk_long_length_forms(bytes(args[0]), args[1], bytes(args[2]))
    if kind == "tree":
        return chk_tree(_untree(args[0]), bytes(args[1]))
    if kind == "writable":
        return chk_writable_input(args[0], args[1])
    if kind == "winter":
        import random as _random

        return chk_writer_interleaving(_random.Random(args[0]))
    if kind == "failedread":
        import random as _random

        return chk_failed_read_keeps_position(_random.Random(args[0]))
    if kind == "hdrtrunc":
        import random as _random

        return chk_header_truncations(_random.Random(args[0]))
    if kind == "truncated":
        import random as _random

        return chk_truncated_with_header(_random.Random(args[0]))
    if kind == "bigint":
        return chk_bigint(args[0])
    if kind == "pushtags":
        import random as _random

        return chk_push_tags(_random.Random(args[0]))
    if kind == "viewfmt":
        import random as _random

        return chk_view_formats(_random.Random(args[0]))
    if kind == "readerops":
        import random as _random

        rr = _random.Random(args[0])
        items = g_items(rr, args[1])
        ops = [rr.choice(READER_OPS) for _ in range(args[1] * 3)]
        return chk_reader_ops(items, ops, bytes(args[2]))
    raise ValueError(kind)


def _untree(t):
    t = list(t)
    if t[0] in ("seq", "set"):
        return (t[0], tuple(t[1]) if t[1] else None, [_untree(c) for c in t[2]])
    if t[0] == "oct":
        return ("oct", bytes(t[1]))
    return (t[0], t[1])


def run_shard(ctx: Ctx, acc: Acc):
    info = contracts.install()
    acc.extra["contracts"] = info
    r = ctx.rng("c07")

    def do(kind, args, nt, label):
        acc.case()
        acc.count(label)
        if nt:
            acc.nontrivial(kind, args)
        res = run_case(kind, args)
        for key, what in res:
            acc.violation(key, what, {"kind": kind, "args": list(args)})
        _drain_contracts(acc, {"kind": kind, "args": list(args)})

    # exhaustive sub-range, split over shards
    lo, hi = -70000, 70000
    for v in range(lo + ctx.shard, hi + 1, ctx.nshards):
        do("int", (v, None, False, b""), abs(v) >= 128, "int-write")
    acc.count("int-exhaustive-range", 1)
    # powers of two neighbourhood
    ks = range(ctx.shard, 513, ctx.nshards)
    for k in ks:
        for d in (-2, -1, 0, 1, 2):
            for s in (1, -1):
                v = s * ((1 << k) + d)
                do("int", (v, None, bool(k & 1), r.choice(TRAILERS)), True, "int-write")
                acc.count("enum" if k & 1 else "int")
    n = ctx.scale(1_200_000, 24_000_000)
    for i in range(n // 8):
        # carry chains and random
        x = r.random()
        if x < 0.4:
            v = r.choice([1, -1]) * r.randrange(1, 1 << 16) * (1 << (8 * r.randrange(0, 12)))
        elif x < 0.7:
            v = gv.g_int(r)
        else:
            v = r.randrange(-(1 << r.choice([16, 64, 512, 2048])), 1 << r.choice([16, 64, 512, 2048]))
        if i % 500 == 3:  # more decimal digits than CPython converts between int and str by default (4300)
            do("bigint", (r.randrange(1 << 60),), True, "int-beyond-4300-digits")
        tag = None
        if r.random() < 0.3:
            tag = (r.choice([1, 2, 3]), r.choice([0, 2, 10, 30, 31, 128, 16384]), r.random() < 0.2)
        enum = r.random() < 0.3
        do("int", (v, tag, enum, r.choice(TRAILERS)), True, "int-write")
        if enum:
            acc.count("enum")
        # padded / random content
        base = ber.int_content(gv.g_int(r))
        pad = (b"\xff" if base[0] & 0x80 else b"\x00") * r.randrange(1, 9)
        do("content", (pad + base, r.random() < 0.3, r.choice(TRAILERS)), True, "int-read-padded")
        do("content", (r.randbytes(r.choice([1, 2, 3, 4, 8, 9, 17])), False, r.choice(TRAILERS)), True, "int-read-random")
        c = bytes([r.choice([0x80, 0xFF, 0x00, 0x7F])]) + bytes(r.choice([0, 0, 0xFF, 1, 0x80]) for _ in range(r.randrange(0, 6)))
        do("content", (c, False, b""), True, "int-read-random")
        # tags
        cls = r.randrange(4)
        num = r.choice(UNIV_NUMS) if cls == 0 else (r.choice(TAG_NUMS) if r.random() < 0.8 else r.randrange(0, 1 << r.choice([8, 14, 21, 40])))
        ln = r.choice([0, 1, 5]) if r.random() < 0.7 else r.choice(LENS)
        do("tag", (cls, num, r.random() < 0.5, ln, r.choice(TRAILERS)), num >= 31 or ln >= 128, "tag")
        if num >= 31:
            acc.count("tag-multioctet")
        if ln >= 128:
            acc.count("len-long")
        do("bool", (r.randrange(256), r.choice(TRAILERS)), False, "bool")
        val = r.randbytes(r.choice([0, 1, 127, 128, 255, 256, 300]))
        do("lenform", (val, r.choice([1, 2, 3, 4, 5, 8, 126]), r.choice(TRAILERS)), True, "len-long")
        acc.count("octets")
        do("writable", (gv.g_int(r), i % 2), True, "writable-input")
        do("truncated", (r.randrange(1 << 60),), True, "truncated-with-header")
        if i % 4 == 2:
            do("pushtags", (r.randrange(1 << 60),), True, "push-sequence-tags")
        if i % 4 == 1:
            do("viewfmt", (r.randrange(1 << 60),), True, "input-buffer-kinds")
        do("hdrtrunc", (r.randrange(1 << 60),), True, "header-truncations")
        do("winter", (r.randrange(1 << 60),), True, "writer-interleavings")
        do("failedread", (r.randrange(1 << 60),), True, "failed-read-keeps-position")
        if i % 2 == 0:
            do("readerops", (r.randrange(1 << 60), r.choice([2, 3, 5, 9]), r.choice(TRAILERS)), True, "reader-op-sequences")
        if i % 4 == 0:
            t = g_tree(r, r.choice([1, 2, 3, 5]))
            do("tree", (t, r.choice(TRAILERS)), t[0] in ("seq", "set"), "nest")
            acc.case()
            acc.count("child-refuses-sibling")
            for key, what in chk_child_refuses(r):
                acc.violation(key, what, {"kind": "child"})
    if ctx.shard in (0, 1, 2, 3):  # one multi-megabyte element per shard (size classes of 3 and 4 length octets)
        for ln in ((2**21 - 1, 2**21, 2**24 - 1), (2**24,), (2**24 + 1,), (2**24 + 2**16 + 5,))[ctx.shard]:
            do("tag", (2, 5, False, ln, b"\x00"), True, "len-long")
            acc.count("len>=2^21")
    # systematic tag matrix (shard 0 only, cheap)
    if ctx.shard == 0:
        for cls in range(4):
            for num in (UNIV_NUMS if cls == 0 else TAG_NUMS):
                for pc in (False, True):
                    do("tag", (cls, num, pc, 3, b"\x01"), num >= 31, "tag")
        for octet in range(256):
            do("bool", (octet, b"\x07"), False, "bool")
        for ln in LENS:
            do("tag", (2, 0, False, ln, b"\x30"), ln >= 128, "len-long")
    if ctx.shard == 0:
        _repo_tests_under_contracts(acc)
    for k, v in contracts.evaluations.items():
        acc.count("contract:" + k, v)
    acc.sample({"int": -65536, "written": A._pack_asn1_integer(-65536).hex()})
    acc.sample({"tag": [2, 16384, True], "identifier": ber.ident_octets(2, True, 16384).hex()})


def _repo_tests_under_contracts(acc):
    """The repository's own tests, unedited, with the contracts on: a contract that fires there is either too
    strict or a defect the tests do not assert."""
    import json
    import os
    import subprocess
    import tempfile

    from vf.common import DEPS, PYTHON, REPO, REPO_SRC, VERIF

    out = tempfile.mktemp(prefix="vf-contracts-", suffix=".json")
    env = dict(os.environ, PYTHONPATH=os.pathsep.join([REPO_SRC, VERIF, DEPS]), VF_CONTRACTS_OUT=out, PYTHONDONTWRITEBYTECODE="1")
    try:
        p = subprocess.run([PYTHON, "-m", "pytest", "-q", "-p", "no:cacheprovider", "-p", "vf.mon.pytest_contracts", os.path.join(REPO, "tests")],
                           cwd=REPO, env=env, capture_output=True, text=True, errors="replace", timeout=900)
        res = json.load(open(out)) if os.path.exists(out) else None
    except Exception as e:
        acc.notes.append(f"repository tests under contracts could not run: {type(e).__name__}: {e}")
        return
    finally:
        if os.path.exists(out):
            os.unlink(out)
    if res is None:
        acc.notes.append("repository tests under contracts produced no summary: " + (p.stdout or "")[-300:])
        return
    acc.case()
    acc.count("repo-tests-under-contracts:runs")
    acc.count("repo-tests-under-contracts:contract-evaluations", sum(res["evaluations"].values()))
    acc.extra["repo_tests_under_contracts"] = {"pytest_exit": res["exitstatus"], "evaluations": res["evaluations"], "tail": (p.stdout or "").strip().splitlines()[-1:]}
    for name, what in res["broken"][:5]:
        acc.violation("contract-in-repo-tests:" + name, f"while running the repository's own tests: post-condition of sansldap.asn1.{name} broken: {what}", {"kind": "repo-tests"})


def replay(w):
    if w.get("kind") == "repo-tests":
        a = Acc("C07")
        _repo_tests_under_contracts(a)
        return [(v["key"], v["what"]) for v in a.violations.values()]
    contracts.install()
    contracts.take()
    if w.get("kind") == "child":
        import random

        return chk_child_refuses(random.Random(0))
    case = w.get("case") or w
    res = run_case(case["kind"], case["args"])
    res += [("contract:" + n, what) for n, what, _ in contracts.take()]
    return res
