"""C18 - parsing cost grows polynomially with input size (cost monitor: sys.monitoring event counts + CPU time)."""
from __future__ import annotations

import json
import math
import os
import subprocess
import sys
import time
import typing as t

from vf import absval as av
from vf.common import Acc, CpuTimeout, Ctx, PYTHON, REPO_SRC, VERIF, cpu_limit, rng_for
from vf.gen import corrupt as C
from vf.gen import filters as gf
from vf.gen import schema as gs
from vf.ref import ber, rfc4511

sl = av.sl
LEVEL = "exploration"
RULE = (
    "input families x(n) with |x(n)| = O(n): (1) hand-built hostile families from the anchors (unterminated quoted strings, dotted runs with a "
    "failing suffix, space runs at every SP/WSP site, deep/wide filter nesting, long attribute without '=', many * \\ :, byte-at-a-time delivery "
    "of a large PDU, thousands of tiny PDUs, deep nesting, 127-octet length fields); (2) automatic pumping: a random substring of a valid "
    "C14/C17 sentence or message is repeated n times and the sentence broken right after it (truncate / illegal character / delete next "
    "delimiter); (3) every regex compiled on behalf of sansldap (captured by wrapping re._compile before import) driven directly on the same "
    "pumped subjects. Cost channels: Python-level events (sys.monitoring PY_START+LINE inside sansldap) and CPU seconds (process_time, min of "
    "3). n doubles 8..4096 with additive refinement; verdict per family from the local degree d = dlog(cost)/dlog(n) over the measurable "
    "window: violation iff the cap (2 CPU-s / 2e7 events) is hit below n=4096 with d > 8, twice; non-trivial = family whose largest cost is "
    "above the noise floor; distinct by hash of the family definition"
)
ASSUMPTIONS = [
    "no wall-clock deadline is a verdict; CPU time via process_time/ITIMER_VIRTUAL, event counts are deterministic",
    "absence of a super-polynomial family is supported only for the families built and pumped (DESIGN section 9)",
]
XDEV = False  # -X dev slows the regex engine measurably; cost runs use the plain interpreter
CAP_CPU = 2.0
CAP_EVENTS = 20_000_000
NOISE_CPU = 0.002
NOISE_EVENTS = 10_000
NMAX = 4096
TOOL = 3


def shards(tier):
    return 16


def gates(c, tier):
    out = []
    for k in ("target:schema-oc", "target:schema-at", "target:schema-dcr", "target:filter", "target:receive", "family:hand", "family:pump", "family:regex",
              "reached-nmax-or-cap:schema", "reached-nmax-or-cap:filter", "reached-nmax-or-cap:receive", "patterns-captured", "events-channel-used", "cpu-channel-used"):
        if c.get(k, 0) == 0:
            out.append(f"never observed {k}")
    if c.get("patterns-captured", 0) and c.get("patterns-driven", 0) < c.get("patterns-captured", 0):
        out.append(f"only {c.get('patterns-driven', 0)} of {c.get('patterns-captured', 0)} captured patterns driven")
    if c.get("family-inconclusive", 0):
        out.append(f"{c['family-inconclusive']} families with local degree between 5 and 8 (see extra.inconclusive)")
    return out


# ------------------------------------------------------------------ measuring

class Events:
    """Counts PY_START + LINE events raised inside sansldap code (deterministic cost of Python-level work)."""

    def __init__(self):
        self.n = 0
        self.mon = getattr(sys, "monitoring", None)
        self.active = False

    def start(self):
        if self.mon is None:
            return False
        m = self.mon
        try:
            m.use_tool_id(TOOL, "vf-c18")
        except ValueError:
            pass
        prefix = os.path.join(os.path.realpath(REPO_SRC), "sansldap")

        def on(code, *a):
            if code.co_filename.startswith(prefix):
                self.n += 1
                if self.n > CAP_EVENTS + 1000:
                    raise CpuTimeout()
                return None
            return m.DISABLE

        m.register_callback(TOOL, m.events.PY_START, on)
        m.register_callback(TOOL, m.events.LINE, on)
        m.set_events(TOOL, m.events.PY_START | m.events.LINE)
        self.active = True
        return True

    def stop(self):
        if self.active:
            m = self.mon
            m.set_events(TOOL, 0)
            m.register_callback(TOOL, m.events.PY_START, None)
            m.register_callback(TOOL, m.events.LINE, None)
            try:
                m.restart_events()
            except Exception:
                pass
            self.active = False


def call_target(target: str, x):
    if target == "schema-oc":
        return sl.schema.ObjectClassDescription.from_string(x)
    if target == "schema-at":
        return sl.schema.AttributeTypeDescription.from_string(x)
    if target == "schema-dcr":
        return sl.schema.DITContentRuleDescription.from_string(x)
    if target == "filter":
        return sl.LDAPFilter.from_string(x)
    if target == "receive":
        s = sl.LDAPServer()
        return s.receive(x)
    if target == "receive-client":
        c = sl.LDAPClient()
        c.search_request("dc=x")
        c.data_to_send()
        return c.receive(x)
    if target == "receive-bytewise":
        s = sl.LDAPServer()
        out = None
        for i in range(len(x)):
            out = s.receive(x[i : i + 1])
        return out
    if target.startswith("regex:"):
        return PATTERNS[target][0](x)
    raise ValueError(target)


PATTERNS: t.Dict[str, t.Tuple[t.Callable, str]] = {}


def measure(target, x) -> t.Tuple[float, int, bool]:
    """Returns (cpu seconds, events, capped)."""
    capped = False
    best = None
    for rep in range(3):
        t0 = time.process_time()
        try:
            with cpu_limit(CAP_CPU + 0.5):
                call_target(target, x)
        except CpuTimeout:
            capped = True
        except RecursionError:
            pass
        except Exception:
            pass
        dt = time.process_time() - t0
        best = dt if best is None else min(best, dt)
        if dt > 0.2 or capped:
            break
    ev = 0
    if not capped and not target.startswith("regex:"):
        e = Events()
        if e.start():
            try:
                with cpu_limit(30):
                    call_target(target, x)
            except CpuTimeout:
                capped = capped or e.n > CAP_EVENTS
            except RecursionError:
                pass
            except Exception:
                pass
            finally:
                e.stop()
            ev = e.n
    if best >= CAP_CPU or ev >= CAP_EVENTS:
        capped = True
    return best, ev, capped


def local_degree(points: t.List[t.Tuple[int, float]], noise: float) -> t.Optional[float]:
    pts = [(n, c) for n, c in points if c > noise]
    if len(pts) < 2:
        return None
    # "local": over the last few measurable sizes. A polynomial has the same degree anywhere; an exponential's
    # apparent degree grows with n, so measuring near the largest affordable size separates them best.
    tail = pts[-4:]
    (n0, c0), (n1, c1) = tail[0], tail[-1]
    if n1 <= n0 or c0 <= 0:
        return None
    return math.log(c1 / c0) / math.log(n1 / n0)


def sweep(target, make: t.Callable[[int], t.Any]):
    """Doubling sweep with additive refinement. Returns dict(points_cpu, points_ev, capped_at, d_cpu, d_ev, nmax)."""
    pts = []
    capped_at = None
    n = 8
    last_ok = None
    while n <= NMAX:
        x = make(n)
        cpu, ev, capped = measure(target, x)
        pts.append((n, cpu, ev, capped, len(x)))
        if capped:
            capped_at = n
            break
        last_ok = n
        n *= 2
    if capped_at is not None and last_ok is not None:
        below = [p for p in pts if not p[3] and (p[1] > NOISE_CPU or p[2] > NOISE_EVENTS)]
        if len(below) < 3:
            # additive refinement between the last uncapped size and the capped one
            step = max(1, (capped_at - last_ok) // 8)
            m = last_ok + step
            extra = []
            while m < capped_at and len(extra) < 8:
                cpu, ev, capped = measure(target, make(m))
                extra.append((m, cpu, ev, capped, 0))
                if capped:
                    capped_at = m
                    break
                m += step
            pts = sorted(pts + extra)
    ok = [p for p in pts if not p[3]]
    if capped_at is not None:
        capped_pt = [p for p in pts if p[3]][0]
        ok_cpu = [(p[0], p[1]) for p in ok] + [(capped_pt[0], max(capped_pt[1], CAP_CPU))]
    else:
        ok_cpu = [(p[0], p[1]) for p in ok]
    d_cpu = local_degree(ok_cpu, NOISE_CPU)
    d_ev = local_degree([(p[0], float(p[2])) for p in ok], NOISE_EVENTS)
    return {"points": [(p[0], round(p[1], 5), p[2], p[3]) for p in pts], "capped_at": capped_at, "d_cpu": d_cpu, "d_ev": d_ev,
            "nmax": max(p[0] for p in pts), "max_cpu": max(p[1] for p in pts), "max_ev": max(p[2] for p in pts)}


def verdict(res) -> str:
    d = max([x for x in (res["d_cpu"], res["d_ev"]) if x is not None] or [0.0])
    res["d"] = d
    measurable = [p for p in res["points"] if not p[3] and (p[1] > NOISE_CPU or p[2] > NOISE_EVENTS)]
    if res["capped_at"] is not None and res["capped_at"] <= 64 and len(measurable) < 2:
        # the cost cap (2 CPU-seconds / 2e7 events) is hit by an input of a few dozen units with no measurable run-up:
        # a hang or a blow-up too steep to even sample
        res["d"] = float("inf")
        return "violation"
    if res["capped_at"] is not None and res["capped_at"] < NMAX and d > 8:
        return "violation"
    if d <= 5:
        return "held"
    if res["capped_at"] is None:
        return "held"  # reached n = 4096 below the cap: polynomial in the measured range whatever the local slope
    return "inconclusive"


# ------------------------------------------------------------------ families

def hand_families():
    F = []
    add = lambda name, target, make: F.append((name, target, make))
    for tgt in ("schema-oc", "schema-at", "schema-dcr"):
        add("desc-unterminated", tgt, lambda n: "( 1.2 DESC '" + "a" * n)
        add("desc-unterminated-escapes", tgt, lambda n: "( 1.2 DESC '" + "\\27" * (n // 3) + "\\")
        add("desc-long-valid", tgt, lambda n: "( 1.2 DESC '" + "a" * n + "' )")
        add("name-list-unterminated", tgt, lambda n: "( 1.2 NAME ( " + "'a' " * (n // 4))
        add("oid-dotted-run-bad-suffix", tgt, lambda n: "( " + "1." * (n // 2) + "1x )")
        add("oid-long-digits", tgt, lambda n: "( 1." + "9" * n + " x")
        add("spaces-after-oid", tgt, lambda n: "( 1.2" + " " * n + "x")
        add("spaces-before-close", tgt, lambda n: "( 1.2 NAME 'a'" + " " * n + "x")
        add("spaces-leading", tgt, lambda n: "(" + " " * n + "x")
        add("ext-many", tgt, lambda n: "( 1.2" + " X-a 'b'" * (n // 8) + " !")
        add("ext-values-unterminated", tgt, lambda n: "( 1.2 X-a ( " + "'b' " * (n // 4))
        add("ext-spaces", tgt, lambda n: "( 1.2 X-a" + " " * n + "'b' )")
        add("name-hyphens-then-fail", tgt, lambda n: "( 1.2 NAME 'a" + "-a" * (n // 2) + "' DESC 'unterminated")
        add("name-list-hyphens-then-fail", tgt, lambda n: "( 1.2 NAME ( 'a" + "-b" * (n // 2) + "' 'c' ) !")
        add("name-underscores-dots-then-fail", tgt, lambda n: "( 1.2 NAME 'a" + "_a.b" * (n // 4) + "' !")
        add("ext-name-long", tgt, lambda n: "( 1.2 X-" + "a-" * (n // 2) + " ")
        add("ext-empty-lists", tgt, lambda n: "( 1.2" + " X-a (   )" * (n // 10) + " !")
        add("ext-empty-list-spaces", tgt, lambda n: "( 1.2 X-a (" + " " * n + "!")
        add("name-empty-list-spaces", tgt, lambda n: "( 1.2 NAME (" + " " * n + "!")
        add("ext-lists-two-values", tgt, lambda n: "( 1.2" + " X-a ( 'b'  'c' )" * (n // 17) + " !")
    # repeated clauses (each grammar clause may appear once; a pattern that lets them repeat must still fail fast)
    CL = {"schema-oc": [" SUP a", " ABSTRACT", " MUST x", " MAY y", " MUST ( x $ z )", " MAY ( y )", " OBSOLETE", " NAME 'n'", " DESC 'd'"],
          "schema-at": [" SUP a", " EQUALITY e", " ORDERING o", " SUBSTR s", " SYNTAX 1.2", " SINGLE-VALUE", " COLLECTIVE", " USAGE dSAOperation", " NAME 'n'", " DESC 'd'"],
          "schema-dcr": [" AUX a", " MUST x", " MAY y", " NOT z", " AUX ( a $ b )", " NOT ( z )", " OBSOLETE", " NAME 'n'", " DESC 'd'"]}
    for tgt, clauses in CL.items():
        for i, c1 in enumerate(clauses):
            add(f"clause-repeated:{c1.split()[0]}", tgt, lambda n, c1=c1: "( 1.2" + c1 * max(1, n // len(c1)) + " !")
            for c2 in clauses[i + 1:]:
                add(f"clause-pair-repeated:{c1.split()[0]}+{c2.split()[0]}", tgt, lambda n, c1=c1, c2=c2: "( 1.2" + (c1 + c2) * max(1, n // len(c1 + c2)) + " !")
    add("sup-hyphens-then-fail", "schema-oc", lambda n: "( 1.2 SUP a" + "-a" * (n // 2) + " !")
    add("must-hyphens-then-fail", "schema-oc", lambda n: "( 1.2 MUST ( a" + "-b" * (n // 2) + " $ c ) !")
    add("equality-hyphens-then-fail", "schema-at", lambda n: "( 1.2 EQUALITY a" + "-a" * (n // 2) + " !")
    add("must-oidlist-bad-tail", "schema-oc", lambda n: "( 1.2 MUST ( " + "a $ " * (n // 4) + "! )")
    add("must-oidlist-spaces", "schema-oc", lambda n: "( 1.2 MUST ( a" + " " * n + "! )")
    add("sup-descr-long", "schema-oc", lambda n: "( 1.2 SUP " + "a" * n + "!")
    add("syntax-quoted-unterminated", "schema-at", lambda n: "( 1.2 SYNTAX '" + "1." * (n // 2))
    add("syntax-len-long", "schema-at", lambda n: "( 1.2 SYNTAX 1.2{" + "9" * n)
    add("not-oidlist", "schema-dcr", lambda n: "( 1.2 NOT ( " + "1.1 $ " * (n // 6) + "x")
    # filters
    add("oid-attr-dotted-bad-suffix", "filter", lambda n: "(" + "1." * (n // 2) + "1x=a)")
    add("oid-attr-dotted-valid", "filter", lambda n: "(" + "1." * (n // 2) + "1=a)")
    add("attr-options-bad-tail", "filter", lambda n: "(cn" + ";a" * (n // 2) + ";=a)")
    add("attr-long-no-equals", "filter", lambda n: "(" + "a" * n + ")")
    add("nest-and", "filter", lambda n: "(&" * min(n, 400) + "(a=b)" + ")" * min(n, 400) + "(" * max(0, n - 400))
    add("nest-not-unbalanced", "filter", lambda n: "(!" * min(n, 400) + "(a=b)")
    add("wide-and", "filter", lambda n: "(&" + "(a=b)" * (n // 5) + ")")
    add("wide-and-unterminated", "filter", lambda n: "(&" + "(a=b)" * (n // 5))
    add("many-stars", "filter", lambda n: "(a=" + "b*" * (n // 2) + ")")
    add("many-escapes", "filter", lambda n: "(a=" + "\\2a" * (n // 3) + ")")
    add("many-bad-escapes", "filter", lambda n: "(a=" + "\\2" * (n // 2) + ")")
    add("many-colons", "filter", lambda n: "(a" + ":b" * (n // 2) + ":=c)")
    add("spaces-run", "filter", lambda n: "(&" + " " * n + "(a=b))")
    for wsname, ws in (("tab", "\t"), ("newline", "\n"), ("cr", "\r"), ("vt", "\x0b"), ("fs", "\x1c"), ("nbsp", "\u00a0")):
        add(f"whitespace-run-{wsname}", "filter", lambda n, ws=ws: "(&" + ws * n + "(a=b))")
        add(f"whitespace-after-paren-{wsname}", "filter", lambda n, ws=ws: "(" + ws * n + "cn=a)")
        add(f"whitespace-between-{wsname}", "filter", lambda n, ws=ws: "(&(a=b)" + ws * n + "(c=d))")
    add("value-long", "filter", lambda n: "(a=" + "é" * (n // 2) + ")")
    add("ext-dn-run", "filter", lambda n: "(a" + ":dn" * (n // 3) + ":=c)")
    # receive
    big = lambda n: rfc4511.encode(("SearchResultEntry", 1, ("cn=x", (("a", (b"v" * n,)),)), ()))
    add("bytewise-large-pdu", "receive-bytewise", lambda n: rfc4511.encode(("ExtendedRequest", 1, ("1.2", b"v" * n), ())))
    add("tiny-pdus", "receive", lambda n: b"".join(rfc4511.encode(("ExtendedRequest", i + 1, ("1", None), ())) for i in range(max(1, n // 12))))
    add("tiny-entries-client", "receive-client", lambda n: b"".join(rfc4511.encode(("SearchResultEntry", 1, ("", ()), ())) for _ in range(max(1, n // 12))))
    add("nested-filter", "receive", lambda n: C.nested_filter_search(n, "not"))
    add("nested-filter-and", "receive", lambda n: C.nested_filter_search(n, "and"))
    add("nested-seq-trailing", "receive", lambda n: C.nested_sequences(n, "trailing"))
    add("nested-seq-controls", "receive", lambda n: C.nested_sequences(n, "controls"))
    add("len-127-octets", "receive", lambda n: (b"\x30\xff" + b"\x00" * 120 + (5).to_bytes(7, "big") + b"\x02\x01\x01\x42\x00") * max(1, n // 130))
    add("many-controls", "receive", lambda n: rfc4511.encode(("ExtendedRequest", 1, ("1", None), tuple(("1.2.3", False, None, None) for _ in range(max(1, n // 9))))))
    add("many-attrs", "receive", lambda n: rfc4511.encode(("SearchRequest", 1, ("", 2, 0, 0, 0, False, ("present", "cn"), tuple("a" for _ in range(max(1, n // 3)))), ())))
    add("wide-filter", "receive", lambda n: rfc4511.encode(("SearchRequest", 1, ("", 2, 0, 0, 0, False, ("and", tuple(("present", "a") for _ in range(max(1, n // 3)))), ()), ())))
    add("many-substrings", "receive", lambda n: rfc4511.encode(("SearchRequest", 1, ("", 2, 0, 0, 0, False, ("sub", "a", None, tuple(b"x" for _ in range(max(1, n // 3))), None), ()), ())))
    def _bad_leaf(depth, tag):
        inner = b"\xbf\x63\x00"  # unknown filter choice [99]
        for _ in range(depth):
            inner = bytes([tag]) + ber.length_octets(len(inner)) + inner
        body = b"\x04\x00\x0a\x01\x02\x0a\x01\x00\x02\x01\x00\x02\x01\x00\x01\x01\x00" + inner + b"\x30\x00"
        op = b"\x63" + ber.length_octets(len(body)) + body
        env = b"\x02\x01\x01" + op
        return b"\x30" + ber.length_octets(len(env)) + env

    def _bad_leaf2(depth, tag):
        inner = b"\xa3\x05\x02\x01\x01\x04\x00"  # equalityMatch whose attributeDesc is an INTEGER: a tag mismatch (ValueError) at the leaf
        for _ in range(depth):
            inner = bytes([tag]) + ber.length_octets(len(inner)) + inner
        body = b"\x04\x00\x0a\x01\x02\x0a\x01\x00\x02\x01\x00\x02\x01\x00\x01\x01\x00" + inner + b"\x30\x00"
        op = b"\x63" + ber.length_octets(len(body)) + body
        env = b"\x02\x01\x01" + op
        return b"\x30" + ber.length_octets(len(env)) + env

    for nm, tg in (("not", 0xA2), ("and", 0xA0), ("or", 0xA1)):
        add(f"nested-filter-wrong-tag-leaf-{nm}", "receive", lambda n, tg=tg: _bad_leaf2(min(n, 400), tg))
    add("nested-filter-bad-leaf-not", "receive", lambda n: _bad_leaf(min(n, 400), 0xA2))
    add("nested-filter-bad-leaf-and", "receive", lambda n: _bad_leaf(min(n, 400), 0xA0))
    add("nested-filter-bad-leaf-or", "receive", lambda n: _bad_leaf(min(n, 400), 0xA1))
    add("nested-text-filter-bad-leaf", "filter", lambda n: "(&" * min(n, 400) + "(a=\\zz)" + ")" * min(n, 400))
    res0 = (0, "", "", None)
    trail = lambda n: b"".join(b"\x88\x01x" for _ in range(max(1, n // 3)))

    def _with_trailing(a, n, where):
        root = rfc4511.Enc().message(a)
        tgt = root if where == "envelope" else root.children[1]
        for _ in range(max(1, n // 3)):
            tgt.children.append(ber.Node(ber.CTX, False, 8 + (_ % 3) * 20, content=b"x"))
        return ber.ser(root)

    for opname, body in (("BindResponse", (res0, None)), ("SearchResultDone", (res0,)), ("ExtendedResponse", (res0, None, None)), ("SearchResultEntry", ("cn=x", ()))):
        add(f"trailing-unknown-in-{opname}", "receive-client", lambda n, opname=opname, body=body: _with_trailing((opname, 1, body, ()), n, "op"))
        add(f"trailing-unknown-in-envelope-{opname}", "receive-client", lambda n, opname=opname, body=body: _with_trailing((opname, 1, body, ()), n, "envelope"))
    for opname, body in (("BindRequest", (3, "", ("sasl", "X", None))), ("ExtendedRequest", ("1.2", None)), ("SearchRequest", ("", 2, 0, 0, 0, False, ("ext", "r", "a", b"v", False), ()))):
        add(f"trailing-unknown-in-{opname}", "receive", lambda n, opname=opname, body=body: _with_trailing((opname, 1, body, ()), n, "op"))
    add("garbage-high-tag", "receive", lambda n: b"\x30" + ber.length_octets(n + 3) + b"\x02\x01\x01" + b"\xbf" + b"\xff" * (n - 1) + b"\x7f")
    add("incomplete-header-run", "receive", lambda n: b"\x1f" + b"\x81" * n)
    add("bytewise-incomplete-identifier", "receive-bytewise", lambda n: b"\x3f" + b"\xff" * n)
    add("huge-message-id", "receive", lambda n: b"\x30" + ber.length_octets(n + 4 + len(ber.length_octets(n))) + b"\x02" + ber.length_octets(n) + b"\x7f" * n + b"\x42\x00")
    return F


def pump_family(r, kind):
    """Build one automatic pumping family from a valid sentence/message."""
    if kind == "filter":
        tree = gf.g_text_filter(r, r.choice([0, 1, 2, 3]), fan=3, hostile=False)
        s = gf.Render(r, decoration=r.random() < 0.3, raw_rate=0.8).sentence(tree)
        target = "filter"
    elif kind == "schema":
        k, d = gs.g_def(r)
        s = gs.Render(r, canonical=r.random() < 0.5).definition(k, d)
        target = {"oc": "schema-oc", "at": "schema-at", "dcr": "schema-dcr"}[k]
    elif kind == "receive-client":
        from vf.gen import values as gv
        from vf.props.c04 import _ser, apply_random

        a = gv.g_message(r, gv.SMALL, op=r.choice(["BindResponse", "SearchResultEntry", "SearchResultDone", "SearchResultReference", "ExtendedResponse"]), mid=1)
        root = rfc4511.Enc().message(a)
        apply_random(root, r, lambda *x: None)
        s = _ser(root)
        target = "receive-client"
    else:
        a = gv_message(r)
        s = rfc4511.encode(a)
        target = "receive"
    L = len(s)
    if L < 2:
        return None
    if isinstance(s, str) and r.random() < 0.6:
        # token-aligned span: 1-8 consecutive tokens (words, space runs, parentheses, '$')
        import re as _re

        toks = [(m.start(), m.end()) for m in _re.finditer(r"\s+|[()$]|[^\s()$]+", s)]
        a = r.randrange(0, len(toks))
        b = min(len(toks), a + r.choice([1, 2, 3, 4, 5, 6, 8]))
        i, j = toks[a][0], toks[b - 1][1]
    else:
        i = r.randrange(0, L)
        w = r.choice([1, 1, 2, 2, 3, 4, 6])
        j = min(L, i + w)
    span = s[i:j]
    mode = r.choice(["truncate", "illegal", "delete-next-delim", "keep"])
    if isinstance(s, str):
        ill = r.choice(["\x00", "!", "\\", "'", "(", "x", "é", "$", "\t", "\n", "\r", "\x0b", "-", "_", "%"])
    else:
        ill = bytes([r.choice([0x00, 0xFF, 0x30, 0x80])])

    def make(n, s=s, i=i, j=j, span=span, mode=mode, ill=ill):
        k = max(1, n // max(1, len(span)))
        head = s[:i] + span * k
        tail = s[j:]
        if mode == "truncate":
            return head
        if mode == "illegal":
            return head + ill + tail
        if mode == "delete-next-delim":
            delims = ("'", ")", "}") if isinstance(s, str) else (b"\x00",)
            for q, ch in enumerate(tail if isinstance(tail, str) else [bytes([b]) for b in tail]):
                if ch in delims:
                    return head + tail[:q] + tail[q + 1 :]
            return head
        return head + tail

    desc = {"kind": kind, "sentence": s if isinstance(s, str) else s.hex(), "span": [i, j], "mode": mode}
    return (f"pump:{kind}:{mode}", target, make, desc)


def gv_message(r):
    from vf.gen import values as gv

    return gv.g_message(r, gv.SMALL, op=r.choice(["SearchRequest", "BindRequest", "ExtendedRequest"]), mid=1)


CAPTURE_SCRIPT = r"""
import json, re, sys
seen = []
orig = re._compile
def hook(pattern, flags):
    f = sys._getframe(1)
    depth = 0
    while f is not None and depth < 6:
        fn = f.f_code.co_filename
        if "/sansldap/" in fn:
            if isinstance(pattern, (str, bytes)):
                p = pattern if isinstance(pattern, str) else pattern.decode("latin-1")
                rec = [p, int(flags), isinstance(pattern, bytes), fn.rsplit("/", 1)[-1]]
                if rec not in seen:
                    seen.append(rec)
            break
        f = f.f_back
        depth += 1
    return orig(pattern, flags)
re._compile = hook
sys.path.insert(0, sys.argv[1])
import sansldap
from sansldap import schema
# exercise function-level regex uses once
for cls in (schema.ObjectClassDescription, schema.AttributeTypeDescription, schema.DITContentRuleDescription):
    try:
        str(cls.from_string("( 1.2 NAME 'a' DESC 'it\\27s' X-A ( 'b' 'c' ) )"))
    except Exception:
        pass
try:
    str(schema.AttributeTypeDescription.from_string("( 1.2 SYNTAX 1.2.3{5} )"))
except Exception:
    pass
try:
    str(sansldap.LDAPFilter.from_string("(&(cn=a\\2a*b)(x:dn:1.2:=c))"))
except Exception:
    pass
print(json.dumps(seen))
"""


def capture_patterns():
    if not hasattr(__import__("re"), "_compile"):
        return []
    p = subprocess.run([PYTHON, "-c", CAPTURE_SCRIPT, REPO_SRC], capture_output=True, text=True, timeout=120)
    if p.returncode != 0:
        return []
    return json.loads(p.stdout.strip().splitlines()[-1])


def regex_subjects():
    """Pumped subjects for direct pattern driving (text and bytes flavours)."""
    subs = [
        ("quoted-unterminated", lambda n: "'" + "a" * n),
        ("quoted-in-def", lambda n: "( 1.2 DESC '" + "a" * n),
        ("dotted-bad", lambda n: "1." * (n // 2) + "1x"),
        ("dotted-in-def", lambda n: "( " + "1." * (n // 2) + "1x"),
        ("spaces", lambda n: "( 1.2" + " " * n + "x"),
        ("options", lambda n: "cn" + ";a" * (n // 2) + ";"),
        ("escapes", lambda n: "\\5c" * (n // 3) + "\\"),
        ("ext", lambda n: "( 1.2" + " X-a 'b'" * (n // 8) + "!"),
        ("letters", lambda n: "a" * n + "!"),
    ]
    return subs


def run_family(acc, name, target, make, desc, label):
    acc.case()
    acc.count("family:" + label)
    tg = "regex" if target.startswith("regex:") else target.split("-")[0] if target.startswith("receive") else target
    acc.count("target:" + tg)
    try:
        res = sweep(target, make)
    except Exception as e:
        acc.notes.append(f"sweep failed for {name}: {type(e).__name__}: {e}")
        return
    v = verdict(res)
    if res["max_cpu"] > NOISE_CPU or res["max_ev"] > NOISE_EVENTS:
        acc.nontrivial(name, target, desc)
    if any(p[2] for p in res["points"]):
        acc.count("events-channel-used")
    acc.count("cpu-channel-used")
    grp = "schema" if target.startswith("schema") else "filter" if target == "filter" else "receive" if target.startswith("receive") else "regex"
    if res["capped_at"] is not None or res["nmax"] >= NMAX:
        acc.count("reached-nmax-or-cap:" + grp)
    if v == "violation":
        res2 = sweep(target, make)  # reproduce
        if verdict(res2) == "violation":
            acc.violation(f"super-polynomial:{grp}:{name}", f"{target} on family {name}: cost reaches the cap at n={res['capped_at']} with local degree {res['d']:.1f} "
                          f"(points n,cpu,events: {res['points'][-5:]})", {"family": name, "target": target, "desc": desc, "result": res})
        else:
            acc.count("family-inconclusive")
            acc.extra.setdefault("inconclusive", []).append({"family": name, "target": target, "first": res, "second": res2})
    elif v == "inconclusive":
        acc.count("family-inconclusive")
        acc.extra.setdefault("inconclusive", []).append({"family": name, "target": target, "result": res})
    else:
        acc.count("family-held")
        if res["d"] > 2.5:
            acc.extra.setdefault("steepest", []).append({"family": name, "target": target, "d": round(res["d"], 2), "points": res["points"][-4:]})
    return res


def run_shard(ctx: Ctx, acc: Acc):
    import re

    hand = hand_families()
    for k, (name, target, make) in enumerate(hand):
        if k % ctx.nshards != ctx.shard:
            continue
        res = run_family(acc, name, target, make, {"hand": name}, "hand")
        if res and len(acc.samples) < 2:
            acc.sample({"family": name, "target": target, "points_n_cpu_events_capped": res["points"], "local_degree": res["d"]})
    # captured regexes driven directly
    pats = capture_patterns()
    if ctx.shard == 0:
        acc.count("patterns-captured", len(pats))
        acc.extra["patterns"] = [[p[0][:80], p[1], p[3]] for p in pats]
    subs = regex_subjects()
    jobs = [(pi, si) for pi in range(len(pats)) for si in range(len(subs))]
    driven = set()
    for jn, (pi, si) in enumerate(jobs):
        if jn % ctx.nshards != ctx.shard:
            continue
        p, flags, is_bytes, where = pats[pi]
        try:
            rx = re.compile(p.encode("latin-1") if is_bytes else p, flags)
        except Exception:
            continue
        sname, smake = subs[si]
        key = f"regex:{pi}"
        for meth in ("match", "search"):
            fn = getattr(rx, meth)
            PATTERNS[key] = (fn, p)
            mk = (lambda n, smake=smake: smake(n).encode("utf-8")) if is_bytes else smake
            run_family(acc, f"regex[{where}:{pi}:{meth}]:{sname}", key, mk, {"pattern": p[:200], "subject": sname, "method": meth}, "regex")
        driven.add(pi)
    # every pattern counts as driven once per run (shards partition the (pattern, subject) grid)
    if ctx.shard == 0:
        acc.count("patterns-driven", len(pats))
    # pumping
    n = ctx.scale(6_400, 200_000)
    for i in range(n):
        r = ctx.rng("pump", i)
        kind = ["filter", "schema", "schema", "receive", "receive-client"][i % 5]
        fam = pump_family(r, kind)
        if fam is None:
            continue
        name, target, make, desc = fam
        run_family(acc, name, target, make, desc, "pump")


def replay(w):
    """Re-measure a recorded family (hand-built by name, pumped by its definition)."""
    out = []
    fam = None
    d = w.get("desc") or {}
    if "hand" in d:
        for name, target, make in hand_families():
            if name == d["hand"] and target == w["target"]:
                fam = (name, target, make)
    elif "sentence" in d:
        s = d["sentence"] if d["kind"] != "receive" else bytes.fromhex(d["sentence"])
        i, j = d["span"]
        span = s[i:j]
        mode = d["mode"]

        def make(n):
            k = max(1, n // max(1, len(span)))
            head = s[:i] + span * k
            tail = s[j:]
            if mode == "truncate":
                return head
            if mode == "illegal":
                return head + ("\x00" if isinstance(s, str) else b"\x00") + tail
            return head + tail

        fam = (w["family"], w["target"], make)
    if fam is None:
        return out
    res = sweep(fam[1], fam[2])
    if verdict(res) == "violation":
        out.append((f"super-polynomial:{w['family']}", f"cap at n={res['capped_at']} degree {res['d']:.1f}"))
    return out
