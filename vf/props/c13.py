"""C13 - filter objects survive conversion to text and back (no filter injection)."""
from __future__ import annotations

from vf import absval as av
from vf.common import Acc, CpuTimeout, Ctx, cpu_limit, norm_msg, to_tuple
from vf.gen import filters as gf
from vf.ref import rfc4515

sl = av.sl
LEVEL = "exploration"
RULE = (
    "filter trees of the 10 kinds the text form can denote (DESIGN 7.5), depth <= 8 quick / <= 60 thorough, RFC 4512 attribute "
    "descriptions (descr, numericoid, options), values = arbitrary octets weighted to ( ) * \\ NUL : = ~ < > ! & | space, 0x7F-0xFF, invalid "
    "UTF-8, placed at component boundaries, and values that are themselves filter text; oracle: from_string(str(f)) == f (dataclass "
    "equality) and str(f) is accepted by the strict reference RFC 4515 parser (no decoration, specials only as \\HH) and parses to f; "
    "non-trivial = a value with a special octet or depth >= 2; distinct by hash of the tree"
)
ASSUMPTIONS = [
    "substring components are non-empty and AND/OR sets non-empty (the text form cannot denote the others, DESIGN 7.5)",
    "a parse of a <= 1 KB text that exceeds 10 CPU-seconds counts as not yielding the filter (DESIGN 7.7)",
]
KINDS = ["and", "or", "not", "eq", "ge", "le", "approx", "present", "sub", "ext"]


def shards(tier):
    return 16


def gates(c, tier):
    out = [f"no filter of kind {k}" for k in KINDS if c.get("kind:" + k, 0) == 0]
    if c.get("deep-trees", 0) == 0:
        out.append("no deep tree")
    if c.get("shared-sub-filter-objects", 0) == 0:
        out.append("no tree with shared sub-filter objects")
    for p in ("first:28", "last:28", "first:29", "last:29", "first:2a", "last:2a", "first:5c", "last:5c", "first:00", "last:00", "first:hi", "last:hi"):
        if c.get("pos:" + p, 0) == 0:
            out.append(f"special octet never at position {p}")
    return out


def collapse_dn(f):
    k = f[0]
    if k in ("and", "or"):
        return (k, tuple(collapse_dn(x) for x in f[1]))
    if k == "not":
        return ("not", collapse_dn(f[1]))
    if k == "ext" and f[1] is not None and f[1].lower() == "dn" and f[2] is not None and not f[4]:
        return ("ext", None, f[2], f[3], True)
    return f


def kinds_of(f, acc):
    acc.add(f[0])
    if f[0] in ("and", "or"):
        for x in f[1]:
            kinds_of(x, acc)
    elif f[0] == "not":
        kinds_of(f[1], acc)


def depth(f):
    if f[0] in ("and", "or"):
        return 1 + max(depth(x) for x in f[1])
    if f[0] == "not":
        return 1 + depth(f[1])
    return 0


def check_one(f, as_bytearray=False, share=False):
    out = []
    # the tree owns its values: they die with it; share: equal sub-trees are ONE object used in several places
    obj = av.b_filter(av.fresh(f, as_bytearray), {} if share else None)
    try:
        with cpu_limit(20):
            s = str(obj)
    except CpuTimeout:
        return [("str-cpu-timeout", f"str(filter) of a tree nested {depth(f)} deep did not return within 20 CPU-seconds")]
    except Exception as e:
        return [(f"str-exc:{norm_msg(e)}", f"str(filter) raised {type(e).__name__}: {e}")]
    if len(s) > 300_000:  # cost on big inputs is C18's subject; the 10 CPU-second reparse budget below is meant for ordinary sizes
        return []
    try:
        with cpu_limit(10):
            back = sl.LDAPFilter.from_string(s)
    except CpuTimeout:
        return [("reparse-cpu-timeout", f"from_string(str(f)) did not return within 10 CPU-seconds for a {len(s)}-char text")]
    except Exception as e:
        return [(f"reparse-exc:{norm_msg(e, 40)}", f"from_string(str(f)) raised {type(e).__name__}: {e}; text {s[:120]!r}")]
    try:
        if str(obj) != s:
            out.append(("str-not-repeatable", "str(filter) gives a different text the second time"))
        if av.differs(sl.LDAPFilter.from_string(s), back):
            out.append(("parse-not-repeatable", f"parsing {s[:80]!r} twice gives different filters"))
    except Exception as e:
        out.append((f"second-use-exc:{norm_msg(e, 30)}", f"second str()/from_string raised {type(e).__name__}: {e}"))
    if not av.differs(back, obj) and isinstance(obj, (sl.FilterAnd, sl.FilterOr)):
        try:
            obj.filters.append(sl.FilterPresent("added-after-str"))
            s3 = str(obj)
            if av.differs(sl.LDAPFilter.from_string(s3), obj):
                out.append(("stale-text-after-edit", f"a tree edited after its text form had been taken renders as {s3[:80]!r}, which no longer denotes it"))
                return out
            # nested and/or nodes rendered earlier as part of their parent
            inner = next((x for x in obj.filters if isinstance(x, (sl.FilterAnd, sl.FilterOr))), None)
            if inner is not None:
                inner.filters.append(sl.FilterPresent("added-inside"))
                if av.differs(sl.LDAPFilter.from_string(str(obj)), obj):
                    out.append(("stale-text-after-edit", "a nested and/or node edited after its parent had been rendered: the parent's text form is stale"))
                    return out
        except Exception as e:
            out.append((f"second-use-exc:{norm_msg(e, 30)}", f"{type(e).__name__}: {e}"))
            return out
        # obj was edited on purpose: the remaining comparisons use the parsed copy only
        obj = av.b_filter(f)
    if not av.differs(back, obj) and isinstance(back, (sl.FilterAnd, sl.FilterOr, sl.FilterSubstrings)):
        try:
            (back.any if isinstance(back, sl.FilterSubstrings) else back.filters).append(b"edited" if isinstance(back, sl.FilterSubstrings) else sl.FilterPresent("edited-by-caller"))
            s_after = str(back)  # the edited tree rendered again
            if av.differs(sl.LDAPFilter.from_string(s_after), back):
                out.append(("stale-text-after-edit", f"after an edit of the tree its text form {s_after[:80]!r} no longer denotes it"))
            again = sl.LDAPFilter.from_string(s)
            if av.differs(again, obj):
                out.append(("parse-result-shared-with-earlier-parse", f"after the caller edited a previously parsed filter, parsing {s[:80]!r} again gives {str(av.a_filter(again))[:120]}"))
            return out
        except Exception as e:
            out.append((f"second-use-exc:{norm_msg(e, 30)}", f"{type(e).__name__}: {e}"))
            return out
    if av.differs(back, obj):
        got = av.a_filter(back)
        if got == collapse_dn(f) and got != f:
            out.append(("rule-named-dn-with-attribute", f"extensible match with attribute and matching rule spelled 'dn' comes back as dn_attributes=True without rule: {s[:80]!r}"))
        else:
            out.append(("roundtrip-differs", f"text {s[:120]!r} parses to {str(got)[:120]} expected {str(f)[:120]}"))
    try:
        ref = rfc4515.parse(s, decoration=False, strict_values=True)
        if ref != f and not (ref == collapse_dn(f)):
            out.append(("text-denotes-other-filter", f"strict RFC 4515 reading of {s[:120]!r} is {str(ref)[:120]}"))
    except rfc4515.FilterRefError as e:
        out.append((f"text-not-rfc4515:{norm_msg(e, 30)}", f"str(filter) = {s[:120]!r} is not strict RFC 4515: {e}"))
    except RecursionError:
        pass
    return out


def run_shard(ctx: Ctx, acc: Acc):
    # a few trees nested far deeper than the random part goes in the quick tier (text form and reparse are recursive)
    for di, d in enumerate([18, 25, 40, 60, 120, 200]):
        if di % ctx.nshards != ctx.shard:
            continue
        for k in range(3):
            f = deep_tree(ctx.seed * 31 + k, d)
            acc.case()
            acc.count("deep-trees")
            acc.nontrivial("deep", d, k)
            for key, what in check_one(f):
                acc.violation(key, what, {"deep": [ctx.seed * 31 + k, d]})
    n = ctx.scale(60_000, 1_500_000)
    maxd = 60 if ctx.thorough else 8
    for i in range(n):
        r = ctx.rng(i)
        d = r.choice([0, 0, 1, 2, 3, maxd if i % 50 == 0 else 4])
        f = gf.g_text_filter(r, d, dn_rule_rate=0.01)
        acc.case()
        ks = set()
        kinds_of(f, ks)
        for k in ks:
            acc.count("kind:" + k)
        sp = set()
        gf.special_positions(f, sp)
        for p in sp:
            acc.count("pos:" + p)
        if gf.value_has_special(f) or depth(f) >= 2:
            acc.nontrivial(f)
        if i < 3:
            acc.sample({"tree": f, "text": str(av.b_filter(f))})
        for key, what in check_one(f):
            acc.violation(key, what, {"tree": f})
        if i % 5 == 2:
            acc.case()
            acc.count("shared-sub-filter-objects")
            for key, what in check_one(f, False, True):
                acc.violation(key, what + " [equal sub-trees built as one shared object]", {"tree": f, "share": True})
        if i % 8 == 3:
            acc.case()
            acc.count("values-held-in-bytearrays")
            for key, what in check_one(f, True):
                acc.violation(key, what + " [values held in bytearrays]", {"tree": f, "as_bytearray": True})


def deep_tree(seed, d):
    import random

    r = random.Random(seed)
    f = gf.g_text_filter(r, 0, dn_rule_rate=0)
    for _ in range(d):
        k = r.choice(["and", "or", "not"])
        f = ("not", f) if k == "not" else (k, (f,) if r.random() < 0.6 else (f, ("present", "cn")))
    return f


def replay(w):
    if w.get("share"):
        return check_one(to_tuple(w["tree"]), False, True)
    if w.get("deep"):
        return check_one(deep_tree(*w["deep"]))
    if w.get("as_bytearray"):
        return check_one(to_tuple(w["tree"]), True)
    return check_one(to_tuple(w["tree"]))
