"""C10 - rejected calls have no wire effect; servers answer only open requests (trace checker, two observation modes)."""
from __future__ import annotations

from vf import absval as av
from vf.common import Acc, Ctx, to_tuple
from vf.gen import histories as H
from vf.mon.driver import decode_out_stream

sl = av.sl
LEVEL = "exploration"
RULE = (
    "joint client/server histories of 5-60 calls biased to refusals (ids not outstanding / already answered / never issued, calls while "
    "BINDING or CLOSED, second final responses), type-valid arguments only; observed in drain mode (outgoing buffer emptied after every "
    "call: a refused call must leave data_to_send() == b'') and in pending mode (random partial drains; at the end the whole drained "
    "stream must decode, by the strict reference decoder, to exactly the accepted calls in order); refusals must be LDAPError; "
    "non-trivial = history with >= 1 refused call; distinct by hash of the concrete call sequence"
)
ASSUMPTIONS = [
    "argument validation errors for type-invalid input are out of scope (none generated, DESIGN 7.10)",
    "a refused call = one the model of DESIGN Appendix B refuses or the session itself refuses",
]


def shards(tier):
    return 16


def gates(c, tier):
    out = []
    for k in ("mode:drain", "mode:pending", "refused:client", "refused:server", "refused-with-pending-bytes", "second-final-response-refused",
              "refused-in:BINDING", "refused-in:CLOSED", "refused-in:OPENED", "refused-in:BEFORE_OPEN", "accepted-server-response", "failing-send", "many-open-requests", "refused-with-awkward-arguments"):
        if c.get(k, 0) == 0:
            out.append(f"never observed {k}")
    for m in ("bind_response", "extended_response", "entry", "reference", "done"):
        if c.get("refused-call:" + m, 0) == 0:
            out.append(f"no refused {m}")
    return out


DRAIN_AMOUNTS = [None, 0, 1, "p-1", "p", "p+1", 10**9, "rand"]


def g_drain(r, drv):
    a = r.choice(DRAIN_AMOUNTS)
    pend = drv._pending_len() or 0
    if a == "p-1":
        a = max(0, pend - 1)
    elif a == "p":
        a = pend
    elif a == "p+1":
        a = pend + 1
    elif a == "rand":
        a = r.randrange(0, pend + 2)
    return ("drain", a)


def finish(pair, mode):
    vio = []
    for d in (pair.c, pair.s):
        if mode == "pending":
            d.step(("drain", None))
        else:
            d.out_stream += d.sess.data_to_send()
        vio += [(k + ":" + d.role, w) for k, w in decode_out_stream(d.out_stream, d.expected_stream)]
    return vio


def failing_sends(pair, acc):
    """Send calls that raise while the message is being encoded (unencodable text). The exception class is not judged
    (type-invalid input, DESIGN 7.10); the outgoing byte stream must be exactly as it was."""
    out = []
    for d in (pair.c, pair.s):
        s = d.sess
        before = s.data_to_send()
        d.out_stream += before
        ids = sorted(d.model.ip) or [1]
        calls = ([lambda: s.search_request("dc=x", attributes=["cn", "bad\udc80"]), lambda: s.extended_request("1.2.\ud800"), lambda: s.bind_simple("cn=\udfff", "pw")]
                 if d.role == "client" else
                 [lambda: s.search_result_reference(ids[0], ["ldap://ok", "ldap://\ud800"]), lambda: s.extended_response(ids[0], diagnostics_message="\udfff"),
                  lambda: s.search_result_entry(ids[0], "cn=\ud800", [])])
        for fn in calls:
            try:
                fn()
                return out  # accepted after all: nothing to judge, and the model is out of step - stop here
            except Exception:
                acc.count("failing-send")
            leaked = s.data_to_send()
            if leaked:
                out.append((f"failed-send-left-bytes:{d.role}", f"a {d.role} send call that raised while encoding left {len(leaked)} bytes queued: {leaked[:32].hex()}"))
                return out
    return out


def run_concrete(steps, mode):
    pair = H.Pair(mode)
    for side, action in steps:
        vio = pair.do(side, tuple(action))
        if vio:
            return vio, pair
    return finish(pair, mode), pair


def _account(acc, pair, mode):
    answered = set()
    for d in (pair.c, pair.s):
        for ev in d.trace:
            acc.count("trace-events")
            if ev.get("op") in ("drain", "receive"):
                continue
            if ev["outcome"] != "ok":
                acc.count("refused:" + d.role)
                acc.count("refused-in:" + ev["state_before"])
                acc.count("refused-call:" + ev["op"])
                if ev.get("pending_before", 0):
                    acc.count("refused-with-pending-bytes")
            elif d.role == "server" and ev["op"] != "unbind":
                acc.count("accepted-server-response")


def many_requests(seed, n_ops, order):
    """A server with n_ops requests open at once (ids not consecutive, not monotonic), answered in the given order; every
    request then gets a second final response (must be refused, no bytes); finally the unanswered ones stay open."""
    import random

    from vf.ref import rfc4511

    r = random.Random(seed)
    ids = r.sample(range(1, 4 * n_ops + 10), n_ops)
    if n_ops >= 3:
        ids[0], ids[1] = 2**31 - 1, 2**31 + 5
    kinds = {}
    steps = []
    for mid in ids:
        if r.random() < 0.5:
            steps.append(("receive", rfc4511.encode(("SearchRequest", mid, ("dc=x", 2, 0, 0, 0, False, ("present", "cn"), ()), ()))))
            kinds[mid] = "search"
        else:
            steps.append(("receive", rfc4511.encode(("ExtendedRequest", mid, ("1.2.3", None), ()))))
            kinds[mid] = "extended"
    answer = list(ids)
    if order == "newest-first":
        answer.reverse()
    elif order == "random":
        r.shuffle(answer)
    elif order == "sorted":
        answer.sort()
    keep_open = set(answer[-2:]) if n_ops > 4 else set()
    for j, mid in enumerate(answer):
        if mid in keep_open:
            continue
        if kinds[mid] == "search":
            if j % 3 == 0:
                steps.append(("entry", mid, "cn=e", (), None))
            steps.append(("done", mid, 0, None, None, None))
        else:
            steps.append(("extended_response", mid, None, None, 0, None, None, None))
    for mid in answer[:: max(1, n_ops // 16)]:
        if mid not in keep_open:
            steps.append(("done" if kinds[mid] == "search" else "extended_response", mid, *((0, None, None, None) if kinds[mid] == "search" else (None, None, 0, None, None, None))))
    for mid in keep_open:  # still open: answering them works
        steps.append(("done", mid, 0, None, None, None) if kinds[mid] == "search" else ("extended_response", mid, None, None, 0, None, None, None))
    return steps


def run_many(steps):
    from vf.mon.driver import Driver

    drv = Driver("server", "drain")
    for a in steps:
        vio = drv.step(tuple(a))
        if vio:
            return vio, drv
    return [(k + ":server", w) for k, w in decode_out_stream(drv.out_stream, drv.expected_stream)], drv


def refused_with_awkward_arguments():
    """Calls that are refused for the session's state, with arguments that are fine to encode but awkward to print (a
    filter nested 700 deep, a 5000-digit integer): the refusal is the library's own error, nothing is queued."""
    out = []
    deep = sl.FilterPresent("cn")
    for _ in range(700):
        deep = sl.FilterNot(deep)
    huge = 10 ** 5000
    cases = []
    c1 = sl.LDAPClient()
    c1.bind_simple("cn=a", "pw")
    c1.data_to_send()
    cases += [("client BINDING search(deep filter)", c1, lambda: c1.search_request("dc=x", filter=deep)), ("client BINDING search(huge limit)", c1, lambda: c1.search_request("dc=x", size_limit=huge)),
              ("client BINDING extended(huge value)", c1, lambda: c1.extended_request("1.2.3", b"v" * 3_000_000))]
    c2 = sl.LDAPClient()
    c2.unbind()
    c2.data_to_send()
    cases += [("client CLOSED search(deep filter)", c2, lambda: c2.search_request("dc=x", filter=deep)), ("client CLOSED search(huge limit)", c2, lambda: c2.search_request("dc=x", time_limit=huge))]
    s1 = sl.LDAPServer()
    s1.receive(rfc4511_encode(("BindRequest", 1, (3, "cn=a", ("simple", "pw")), ())))
    cases += [("server BINDING done(unknown id, huge text)", s1, lambda: s1.search_result_done(77, diagnostics_message="d" * 3_000_000)),
              ("server BINDING entry(while binding)", s1, lambda: s1.search_result_entry(1, "cn=e", [sl.PartialAttribute("a%d" % i, [b"v"]) for i in range(20000)]))]
    for label, sess, fn in cases:
        st = sess.state.name
        try:
            fn()
            out.append(("accepted-but-model-rejects:awkward-arguments", f"{label}: accepted"))
        except sl.LDAPError:
            pass
        except Exception as e:
            out.append((f"refused-with-foreign-exception:{type(e).__name__}", f"{label}: the refused call raised {type(e).__name__} instead of the library's error: {str(e)[:100]}"))
        if sess.data_to_send() or sess.state.name != st:
            out.append(("rejected-call-queued-bytes:awkward-arguments", f"{label}: bytes queued or state changed"))
    return out


def rfc4511_encode(a):
    from vf.ref import rfc4511

    return rfc4511.encode(a)


def run_shard(ctx: Ctx, acc: Acc):
    if ctx.shard == 5:
        acc.case()
        acc.count("refused-with-awkward-arguments")
        acc.nontrivial("awkward")
        for key, what in refused_with_awkward_arguments():
            acc.violation(key, what, {"awkward": True})
    combos = [(n_ops, order) for n_ops in (2, 33, 64, 257, 1000) for order in ("oldest-first", "newest-first", "random", "sorted")]
    for ci, (n_ops, order) in enumerate(combos):
        if ci % ctx.nshards != ctx.shard:
            continue
        acc.case()
        acc.count("many-open-requests")
        acc.nontrivial("many", n_ops, order)
        vio, drv = run_many(many_requests(ctx.seed * 137 + ci, n_ops, order))
        acc.count("trace-events", len(drv.trace))
        acc.count("second-final-response-refused", sum(1 for ev in drv.trace if ev.get("outcome") not in ("ok", None) and ev.get("op") in ("done", "extended_response")))
        for key, what in vio:
            acc.violation(key, what + f" [{n_ops} requests open at once, answered {order}]", {"many": [ctx.seed * 137 + ci, n_ops, order]})
    n = ctx.scale(40_000, 1_000_000)
    for i in range(n):
        r = ctx.rng(i)
        mode = "drain" if i % 2 == 0 else "pending"
        pair = H.Pair(mode)
        acc.case()
        acc.count("mode:" + mode)
        bad = None
        length = r.choice([5, 10, 20, 40, 60])
        final_done = set()
        undrained = {"c": False, "s": False}
        for _ in range(length):
            if mode == "pending" and r.random() < 0.3:
                side = r.choice("cs")
                action = g_drain(r, pair.c if side == "c" else pair.s)
            else:
                side, action = H.random_step(r, pair)
                # bias: repeat a final response for an id that was just answered
                if side == "s" and action[0] != "receive" and final_done and r.random() < 0.15:
                    mid = r.choice(sorted(final_done))
                    action = r.choice([("done", mid, 0, None, None, None), ("extended_response", mid, None, None, 0, None, None, None), ("bind_response", mid, None, 0, None, None, None)])
            drv = pair.c if side == "c" else pair.s
            # "bytes pending" from public observation: an accepted send since the last drain that asked for everything
            pend = 1 if undrained.get(side) else 0
            ip_before = set(drv.model.ip)
            vio = pair.do(side, action)
            if action[0] == "drain":
                if action[1] is None or action[1] >= 10**9:
                    undrained[side] = False
            elif action[0] != "receive" and drv.trace and drv.trace[-1].get("outcome") == "ok" and mode == "pending":
                undrained[side] = True
            if drv.trace and drv.trace[-1].get("op") not in ("drain",):
                drv.trace[-1]["pending_before"] = pend
                ev = drv.trace[-1]
                if side == "s" and action[0] in ("done", "extended_response", "bind_response") and ev["outcome"] == "ok":
                    final_done.add(action[1])
                elif side == "s" and action[0] in ("done", "extended_response", "bind_response", "entry", "reference") and ev["outcome"] != "ok" and action[1] in final_done:
                    acc.count("second-final-response-refused")
            if vio:
                bad = vio
                break
        if not bad and i % 5 == 0:
            bad = failing_sends(pair, acc)
        if not bad:
            bad = finish(pair, mode)
        _account(acc, pair, mode)
        if any(ev.get("outcome") not in (None, "ok") for d in (pair.c, pair.s) for ev in d.trace):
            acc.nontrivial(mode, pair.concrete)
        if i < 2:
            acc.sample({"mode": mode, "history": [(s, a[0]) for s, a in pair.concrete][:30], "server_drained": pair.s.out_stream[:80]})
        if bad:
            for key, what in bad:
                acc.violation(key, what, {"mode": mode, "steps": pair.concrete})


def replay(w):
    if w.get("awkward"):
        return refused_with_awkward_arguments()
    if w.get("many"):
        return run_many(many_requests(*w["many"]))[0]
    steps = [(s, to_tuple(a)) for s, a in w["steps"]]
    vio, _ = run_concrete(steps, w.get("mode", "drain"))
    return vio
