"""C11 - a client and a server session interoperate under any interleaving (two-session simulator, offline log checker)."""
from __future__ import annotations

import copy

from vf import absval as av
from vf.common import Acc, Ctx, h64, to_tuple
from vf.gen import histories as H
from vf.gen import values as gv
from vf.mon.driver import Driver
from vf.ref import ber, rfc4511
from vf.ref.session_model import BINDING, CLOSED, NOTICE_OID, OPENED, BEFORE_OPEN

sl = av.sl
LEVEL = "exploration"
RULE = (
    "simulator with two byte pipes; a seeded scheduler interleaves model-legal client calls, server answers of the matching kind to received "
    "requests (0-n entries/references then done; bind success/in-progress/failure; extended response), data_to_send(k) moves with "
    "k in {0,1,few,all,more}, partial deliveries, quiescence points, refused noise calls and terminations (unbind, notice); every message "
    "carries a unique marker. Offline checks over the log: per direction received == sent (prefix in flight, equal at quiescence), no "
    "ProtocolError except the designed terminations, states agree at quiescence (BEFORE_OPEN == OPENED) and probe agreement on deep copies "
    "for every id ever used; plus scripted long conversations, floods of open requests and 32 bare-session conversations in which both ends register application filter/control types after traffic and then use them; non-trivial = conversation with >= 2 operations in flight and >= 1 partial delivery; distinct by hash of the action log"
)
ASSUMPTIONS = [
    "messages delivered in the same receive call as a termination (unbind / notice) are not required to be returned",
    "after a termination the application stops using that connection (no further deliveries to a CLOSED session)",
]


def shards(tier):
    return 16


def gates(c, tier):
    out = []
    if c.get("distinct-interleaving-signatures", 0) < (1000 if tier == "quick" else 10000):
        out.append(f"only {c.get('distinct-interleaving-signatures', 0)} distinct interleaving signatures")
    for k in ("delivery-ends-mid-header", "delivery-ends-mid-body", "pipelining-depth>=5", "termination:unbind", "termination:notice",
              "quiescent-with-ops-in-progress", "quiescent-points", "probe-agreements", "noise-call-refused", "sasl-in-progress-round", "bind-failure",
              "final-bind-response-with-sasl-creds", "scripted-long-conversations", "types-registered-mid-conversation"):
        if c.get(k, 0) == 0:
            out.append(f"never observed {k}")
    return out


class Sim:
    def __init__(self, r):
        self.r = r
        self.c = Driver("client", "pending")
        self.s = Driver("server", "pending")
        self.c2s = b""
        self.s2c = b""
        self.sent = {"c": [], "s": []}  # abstract messages in send order
        self.recv = {"c": [], "s": []}  # abstract messages received by that side
        self.log = []
        self.marker = 0
        self.server_seen = {}  # id -> kind of requests the server *application* has seen
        self.terminated = None
        self.obs = {}
        self.ids = set()
        self.partial = False
        self.maxdepth = 0
        self.vio = []

    def mark(self):
        self.marker += 1
        return f"m{self.marker}"

    def o(self, k, n=1):
        self.obs[k] = self.obs.get(k, 0) + n

    # -------------------------------------------------------------- actions
    def client_call(self):
        m = self.c.model
        r = self.r
        choices = []
        if m.state != CLOSED:
            if not m.ip:
                choices += ["bind", "bind"]
            if m.state != BINDING:
                choices += ["search"] * 4 + ["extended"] * 3
        if not choices:
            return False
        k = r.choice(choices)
        mk = self.mark()
        if k == "bind":
            a = (("bind_simple", r.choice(["cn=" + mk, "cn=" + mk, "", None]), r.choice(["pw", "pw", mk, "", None]), H._ctl(r, 0.25)) if r.random() < 0.5 else
                 ("bind_sasl", r.choice(["GSSAPI", "EXTERNAL", "", "gssapi", "Digest-md5", "x-\u00df\ufb01"]), "cn=" + mk, r.choice([mk.encode(), mk.encode(), b"", None]), H._ctl(r, 0.25)))
        elif k == "search":
            a = ("search", "dc=" + mk, r.choice([0, 1, 2]), r.choice([0, 1, 2, 3]), r.choice([0, 10, 2**30 + 1, 2**31 - 1, -1]), r.choice([0, 30, 2**30, 2**31 - 1, -5]), r.random() < 0.3,
                 gv.g_filter(r, gv.SMALL) if r.random() < 0.4 else None, r.choice([("cn",), ("cn",), (), None, ("1.1",), ("*", "+", "cn;lang-en")]), H._ctl(r, 0.25))
        else:
            # plain names, names the library's ExtendedOperations enum knows (the driver passes the member itself on odd
            # calls), and other spellings of known names (ordinary names)
            nm = r.choice(["1.2.3", "1.2.3", "1.3.6.1.4.1.1466.20037", "1.3.6.1.4.1.4203.1.11.3", gv.g_lookalike_oid(r)])
            a = ("extended", nm, r.choice([mk.encode(), mk.encode(), b"", None]), H._ctl(r, 0.25))
        return self.api("c", a)

    def server_call(self):
        m = self.s.model
        r = self.r
        if m.state == CLOSED or not self.server_seen:
            return False
        ids = [i for i in self.server_seen if i in m.ip]
        if not ids:
            return False
        if m.state == BINDING:
            ids = [i for i in ids if self.server_seen[i] == "bind"]
            if not ids:
                return False
        mid = r.choice(ids)
        kind = self.server_seen[mid]
        mk = self.mark()
        if kind == "bind":
            code = r.choice([0, 0, 14, 49, 2, 118, 4096])
            if code == 14:
                self.o("sasl-in-progress-round")
            if code == 49:
                self.o("bind-failure")
            creds = mk.encode() if (code == 14 or r.random() < 0.4) else r.choice([None, b""])
            if code != 14 and creds:
                self.o("final-bind-response-with-sasl-creds")
            a = ("bind_response", mid, creds, code, r.choice([None, "", "dc=m"]), mk, H._ctl(r, 0.25))
        elif kind == "search":
            x = r.random()
            if x < 0.5:
                a = ("entry", mid, "cn=" + mk, r.choice([(("cn", (mk.encode(),)),), (("cn", ()), ("sn", (b"", mk.encode()))), (), (("member", (b"a",)), ("Member", (b"b", mk.encode())), ("member", (b"c",))), (("cn", (b"x", b"x")), ("cn", (b"x",)))]), H._ctl(r, 0.25))
            elif x < 0.65:
                a = ("reference", mid, ("ldap://" + mk,), H._ctl(r, 0.25))
            else:
                a = ("done", mid, r.choice([0, 4, 10, 2, 118, 123, 65536]), None, mk, H._ctl(r, 0.25))
        else:
            a = ("extended_response", mid, r.choice([None, "1.2.3", "1.3.6.1.4.1.1466.20037", gv.g_lookalike_oid(r, NOTICE_OID)]), r.choice([mk.encode(), mk.encode(), b"", None]), r.choice([0, 0, 2, 80, 119, 4096]), None, mk, H._ctl(r, 0.25))
        return self.api("s", a)

    def noise(self):
        """A model-illegal call that must be refused without any effect."""
        r = self.r
        side = r.choice("cs")
        drv = self.c if side == "c" else self.s
        m = drv.model
        if side == "c":
            if m.state == BINDING and (not m.ip or r.random() < 0.5):
                a = ("search", "dc=noise", 2, 0, 0, 0, False, None, None, None)
            elif m.state == BINDING:
                a = ("bind_sasl", "GSSAPI", "cn=noise", b"again", None)  # a bind while the previous bind request is still unanswered
            elif m.ip and m.state != CLOSED:
                a = ("bind_simple", "cn=noise", "x", None)
            else:
                return False
        else:
            if m.state == CLOSED:
                return False
            a = ("done", 999_999, 0, None, "noise", None)
        before = len(drv.out_stream)
        ok = self.api(side, a, noise=True)
        self.o("noise-call-refused")
        return ok

    def api(self, side, a, noise=False):
        drv = self.c if side == "c" else self.s
        vio = drv.step(a)
        ev = drv.trace[-1]
        self.log.append((side, a[0]))
        if vio:
            self.vio += vio
            return True
        if ev["outcome"] == "ok":
            msg = drv.expected_stream[-1]
            self.sent[side].append(msg)
            if side == "c" and a[0] != "unbind":
                self.ids.add(msg[1])
            if a[0] == "unbind":
                self.terminated = "unbind"
            if side == "s" and a[0] == "extended_response" and a[2] == NOTICE_OID:
                self.terminated = "notice"
        elif not noise:
            self.vio.append((f"legal-call-refused:{drv.role}.{a[0]}", f"model-legal call {a[0]} raised {ev['outcome']}"))
        self.maxdepth = max(self.maxdepth, len(self.c.model.ip))
        return True

    def move(self, side, amount=None):
        drv = self.c if side == "c" else self.s
        pend = drv._pending_len() or 0
        if amount is None:
            amount = self.r.choice([0, 1, 3, 7, None, None, pend + 5, max(0, pend - 1)])
        n0 = len(drv.out_stream)
        vio = drv.step(("drain", amount))
        self.vio += vio
        new = drv.out_stream[n0:]
        if side == "c":
            self.c2s += new
        else:
            self.s2c += new
        self.log.append((side, "move"))
        return True

    def deliver(self, to, k=None):
        pipe = self.c2s if to == "s" else self.s2c
        drv = self.s if to == "s" else self.c
        if drv.model.state == CLOSED:
            return False
        if k is None:
            k = self.r.choice([0, 1, 2, 5, len(pipe), len(pipe), self.r.randrange(0, len(pipe) + 1)])
        data, rest = pipe[:k], pipe[k:]
        if to == "s":
            self.c2s = rest
        else:
            self.s2c = rest
        # classify where this delivery ends relative to PDU framing of everything delivered so far
        hist = drv.model.inbuf + data
        cnt, off, _ = ber.frame_count(hist)
        tail = hist[off:]
        if tail:
            self.partial = True
            try:
                ber.read_header(tail, 0, len(tail))
                self.o("delivery-ends-mid-body")
            except ber.Incomplete:
                self.o("delivery-ends-mid-header")
            except ber.BerError:
                pass
        sess = drv.sess
        self.log.append((to, "deliver"))
        vio = drv.step(("receive", data))
        ev = drv.trace[-1]
        if ev["outcome"] == "ok":
            try:
                msgs, _ = rfc4511.decode_stream(hist[:off])
            except rfc4511.RefDecodeError as e:
                self.vio.append(("harness:stream", str(e)))
                return True
            self.recv[to].extend(msgs)
            if to == "s":
                for m in msgs:
                    self.server_seen[m[1]] = {"BindRequest": "bind", "SearchRequest": "search", "ExtendedRequest": "extended"}.get(m[0], "?")
        elif ev["outcome"] == "ProtocolError":
            why = drv.model.how_closed
            if why in ("unbind-received", "notice-received") and ev["model_outcome"] == "ProtocolError":
                self.terminated = self.terminated or ("unbind" if why == "unbind-received" else "notice")
                self.o("termination:" + ("unbind" if why == "unbind-received" else "notice"))
            else:
                self.vio.append((f"protocol-error-in-legal-conversation:{drv.role}", f"{drv.role}.receive raised ProtocolError in a conversation of legal calls (model: {ev['model_outcome']}, {why})"))
        self.vio += vio
        return True

    # -------------------------------------------------------------- checks
    def check_order(self, final):
        for frm, to in (("c", "s"), ("s", "c")):
            sent, got = self.sent[frm], self.recv[to]
            if got != sent[: len(got)]:
                k = next((i for i in range(min(len(got), len(sent))) if got[i] != sent[i]), min(len(got), len(sent)))
                self.vio.append((f"delivery-order:{frm}->{to}", f"message #{k} received {str(got[k] if k < len(got) else None)[:120]} but sent {str(sent[k] if k < len(sent) else None)[:120]}"))
            elif final and not self.terminated and len(got) != len(sent):
                self.vio.append((f"delivery-lost:{frm}->{to}", f"{len(sent)} sent, {len(got)} received at quiescence"))

    def quiesce(self):
        """Flush everything; then both sides must agree."""
        for _ in range(6):
            self.move("c", 10**9)
            self.deliver("s", len(self.c2s))
            if self.vio or self.terminated:
                return
            self.move("s", 10**9)
            self.deliver("c", len(self.s2c))
            if self.vio or self.terminated:
                return
            if not self.c2s and not self.s2c and not (self.c._pending_len() or 0) and not (self.s._pending_len() or 0):
                break
        self.o("quiescent-points")
        self.check_order(final=True)
        cs, ss = self.c.sess.state.name, self.s.sess.state.name
        norm = lambda x: "OPENED" if x == "BEFORE_OPEN" else x
        if norm(cs) != norm(ss):
            self.vio.append((f"states-disagree-at-quiescence:{norm(cs)}-vs-{norm(ss)}", f"client {cs}, server {ss} with all bytes delivered"))
        if self.c.model.ip:
            self.o("quiescent-with-ops-in-progress")
        # probe agreement for every id ever used
        for mid in sorted(self.ids) + [max(self.ids or {0}) + 1]:
            s2 = copy.deepcopy(self.s.sess)
            c2 = copy.deepcopy(self.c.sess)
            binding = s2.state.name == "BINDING"
            try:
                if binding:
                    s2.bind_response(mid, result_code=sl.LDAPResultCode.SASL_BIND_IN_PROGRESS)
                else:
                    s2.search_result_done(mid)
                data = s2.data_to_send()
                s_ok = True
            except sl.LDAPError:
                s_ok = False
                res = (14 if binding else 0, "", "", None)
                data = rfc4511.encode(("BindResponse", mid, (res, None), ()) if binding else ("SearchResultDone", mid, (res,), ()))
            except Exception as e:
                self.vio.append((f"probe-exception:server:{type(e).__name__}", str(e)))
                continue
            try:
                c2.receive(data)
                c_ok = True
            except sl.ProtocolError:
                c_ok = False
            except Exception as e:
                self.vio.append((f"probe-exception:client:{type(e).__name__}", str(e)))
                continue
            self.o("probe-agreements")
            if s_ok != c_ok:
                self.vio.append((f"in-progress-disagreement:server-{'accepts' if s_ok else 'refuses'}-client-{'accepts' if c_ok else 'refuses'}",
                                 f"id {mid}: server {'accepts' if s_ok else 'refuses'} a final response, client {'accepts' if c_ok else 'refuses'} it"))


def run_sim(seed_parts, steps_n, want_term):
    from vf.common import rng_for

    r = rng_for("c11sim", *seed_parts)
    sim = Sim(r)
    if want_term == "unbind" and r.random() < 0.08:
        sim.o("unbind-as-first-call")
        sim.api("c", ("unbind",))  # a client that connects and leaves at once
    for step in range(steps_n):
        if sim.vio or sim.terminated:
            break
        x = r.random()
        if x < 0.30:
            sim.client_call()
        elif x < 0.52:
            sim.server_call()
        elif x < 0.64:
            sim.move("c")
        elif x < 0.76:
            sim.move("s")
        elif x < 0.86:
            sim.deliver("s")
        elif x < 0.95:
            sim.deliver("c")
        elif x < 0.97:
            sim.noise()
        elif x < 0.985:
            sim.quiesce()
        elif want_term and step > steps_n // 3:
            if want_term == "unbind":
                sim.api("c", ("unbind",))
            else:
                m = sim.s.model
                if m.ip and m.state != CLOSED:
                    sim.api("s", ("extended_response", sorted(m.ip)[0], NOTICE_OID, None, 52, None, "bye", None))
    if not sim.vio:
        if sim.terminated:
            # deliver the termination to the peer
            for _ in range(3):
                sim.move("c", 10**9)
                sim.deliver("s", len(sim.c2s))
                sim.move("s", 10**9)
                sim.deliver("c", len(sim.s2c))
            sim.check_order(final=False)
            # all bytes delivered: the termination has reached the peer, both ends are CLOSED
            cs, ss = sim.c.sess.state.name, sim.s.sess.state.name
            if not sim.vio and (cs, ss) != ("CLOSED", "CLOSED"):
                sim.vio.append((f"states-disagree-after-termination:{sim.terminated}:{cs}-vs-{ss}", f"after the {sim.terminated} and delivery of all bytes the client is {cs}, the server {ss}"))
            else:
                sim.o("termination-reached-peer")
        else:
            sim.quiesce()
    if sim.maxdepth >= 5:
        sim.o("pipelining-depth>=5")
    return sim


def scripted(kind, size, seed):
    """Long regular conversations through the same simulator: a SASL negotiation of `size` in-progress rounds; `size`
    searches open at once, answered newest first; `size` StartTLS-named extended operations one after the other."""
    from vf.common import rng_for

    sim = Sim(rng_for("c11scripted", kind, size, seed))

    def flush():
        sim.move("c", 10**9)
        sim.deliver("s", len(sim.c2s))
        sim.move("s", 10**9)
        sim.deliver("c", len(sim.s2c))

    if kind == "sasl-rounds":
        for k in range(size + 1):
            sim.api("c", ("bind_sasl", "GSS-SPNEGO", "", b"token%d" % k, None))
            flush()
            if sim.vio:
                return sim
            mid = max(sim.s.model.ip)
            sim.api("s", ("bind_response", mid, b"srv%d" % k, 14 if k < size else 0, None, None, None))
            flush()
            if sim.vio:
                return sim
        sim.api("c", ("search", "dc=after-bind", 2, 0, 0, 0, False, None, None, None))
        flush()
    elif kind == "open-searches":
        for k in range(size):
            sim.api("c", ("search", "dc=s%d" % k, 2, 0, 0, 0, False, None, ("cn",), None))
            if k % 50 == 49:
                flush()
        flush()
        for mid in sorted(sim.s.model.ip, reverse=True):
            if sim.vio:
                return sim
            sim.api("s", ("entry", mid, "cn=e", (), None))
            sim.api("s", ("done", mid, 0, None, None, None))
        flush()
    elif kind == "starttls-again":
        for k in range(size):
            sim.api("c", ("extended", "1.3.6.1.4.1.1466.20037", None, None))
            flush()
            if sim.vio:
                return sim
            sim.api("s", ("extended_response", max(sim.s.model.ip), "1.3.6.1.4.1.1466.20037", None, 0, None, None, None))
            flush()
    if not sim.vio:
        sim.quiesce()
    return sim


def late_types(order):
    """Both applications register their own filter / control types on a connection that has already carried traffic (which an
    application does once it learns what the peer supports), then use them: every message still arrives once, as an equal
    value (bare sessions; round-18 change C11-39). order: which side registers first and what was exchanged before."""
    from vf.props.c19 import CustomControl, CustomFilter

    def same(ctls):  # a decoded control also carries its raw value octets: compare type and fields
        return [(type(x).__name__, x.critical, getattr(x, "size", None)) for x in ctls]

    c, s = sl.LDAPClient(), sl.LDAPServer()
    try:
        if order & 1:
            c.bind_simple("cn=a", "pw")
            rq = s.receive(c.data_to_send())
            s.bind_response(rq[0].message_id)
            c.receive(s.data_to_send())
        if order & 2:
            mid = c.search_request("dc=x", filter=sl.FilterAnd([sl.FilterPresent("cn"), sl.FilterNot(sl.FilterEquality("a", b"b"))]))
            data = c.data_to_send()
            rq = s.receive(data[:9]) + s.receive(data[9:])
            s.search_result_entry(mid, "cn=e", [])
            s.search_result_done(mid)
            c.receive(s.data_to_send())
        for sess in ((c, s) if order & 4 else (s, c)):
            sess.register_filter(CustomFilter)
            sess.register_control(CustomControl)
        flt = sl.FilterOr([sl.FilterNot(CustomFilter(value="late")), sl.FilterAnd([CustomFilter(value="x"), sl.FilterPresent("cn")])]) if order & 8 else CustomFilter(value="late")
        ctl = [CustomControl(critical=bool(order & 16), size=77)]
        mid = c.search_request("dc=y", filter=flt, controls=ctl)
        data = c.data_to_send()
        rq = s.receive(data[: len(data) // 2]) + s.receive(data[len(data) // 2:])
        if len(rq) != 1 or rq[0].filter != flt or same(rq[0].controls) != same(ctl) or rq[0].message_id != mid:
            return [("late-types:request-differs", f"server returned {rq!r:.200} for a search with filter {flt!r:.120} and controls {ctl!r}")]
        s.search_result_done(mid, controls=ctl)
        back = c.receive(s.data_to_send())
        if len(back) != 1 or back[0].message_id != mid or same(back[0].controls) != same(ctl):
            return [("late-types:response-differs", f"client returned {back!r:.200}")]
        if (c.state.name, s.state.name) != ("OPENED", "OPENED"):
            return [("late-types:state", f"client {c.state.name}, server {s.state.name}")]
    except sl.LDAPError as e:
        return [(f"protocol-error-in-legal-conversation:late-types:{type(e).__name__}", f"{type(e).__name__}: {str(e)[:200]}")]
    return []


def flood(n_req):
    """n_req requests in progress on one connection (bare sessions, batches of 5000): every request reaches the server,
    both ends stay OPENED, and the oldest, a middle and the newest one can still be answered."""
    c, s = sl.LDAPClient(), sl.LDAPServer()
    got = 0
    try:
        for base in range(0, n_req, 5000):
            for k in range(min(5000, n_req - base)):
                c.extended_request("1.2.3", None) if k % 3 else c.search_request("dc=x")
            data = c.data_to_send()
            half = len(data) // 2
            got += len(s.receive(data[:half])) + len(s.receive(data[half:]))
        if got != n_req:
            return [("flood:lost", f"{n_req} requests sent, the server returned {got}")]
        for mid in (1, n_req // 2, n_req):
            try:
                s.extended_response(mid) if (mid - 1) % 5000 % 3 else s.search_result_done(mid)
            except sl.LDAPError:
                s.search_result_done(mid) if (mid - 1) % 5000 % 3 else s.extended_response(mid)
            back = c.receive(s.data_to_send())
            if len(back) != 1 or back[0].message_id != mid:
                return [("flood:answer-lost", f"answer to request {mid} of {n_req}: client returned {back!r}")]
        if (c.state.name, s.state.name) != ("OPENED", "OPENED"):
            return [("flood:state", f"client {c.state.name}, server {s.state.name}")]
    except sl.LDAPError as e:
        return [(f"protocol-error-in-legal-conversation:flood:{type(e).__name__}", f"with {got} of {n_req} requests delivered: {type(e).__name__}: {str(e)[:160]}")]
    return []


def run_shard(ctx: Ctx, acc: Acc):
    if ctx.shard in (9, 10):
        n_req = 70_000 if ctx.shard == 9 else 150_000
        acc.case()
        acc.count("scripted-long-conversations")
        acc.count("flood-of-open-requests")
        acc.nontrivial("flood", n_req)
        for key, what in flood(n_req):
            acc.violation(key, what, {"flood": n_req})
    for order in range(32):
        if order % ctx.nshards != ctx.shard:
            continue
        acc.case()
        acc.count("types-registered-mid-conversation")
        acc.nontrivial("late-types", order)
        for key, what in late_types(order):
            acc.violation(key, what + f" [types registered mid-conversation, variant {order}]", {"late_types": order})
    combos = [("sasl-rounds", 3), ("sasl-rounds", 17), ("sasl-rounds", 40), ("open-searches", 33), ("open-searches", 257), ("open-searches", 600), ("starttls-again", 3), ("starttls-again", 20)]
    for ci, (kind, size) in enumerate(combos):
        if ci % ctx.nshards != ctx.shard:
            continue
        sim = scripted(kind, size, ctx.seed)
        acc.case()
        acc.count("scripted-long-conversations")
        acc.nontrivial("scripted", kind, size)
        acc.count("trace-events", len(sim.c.trace) + len(sim.s.trace))
        for key, what in sim.vio[:2]:
            acc.violation(key, what + f" [scripted conversation: {kind} x {size}]", {"scripted": [kind, size, ctx.seed]})
    n = ctx.scale(12_000, 400_000)
    sigs = set()
    for i in range(n):
        steps_n = [10, 30, 60, 120, 300][i % 5]
        want = [None, None, "unbind", "notice"][i % 4]
        parts = (ctx.seed, ctx.shard, i)
        sim = run_sim(parts, steps_n, want)
        acc.case()
        for k, v in sim.obs.items():
            acc.count(k, v)
        acc.count("trace-events", len(sim.c.trace) + len(sim.s.trace))
        acc.count("messages-sent-and-tracked", len(sim.sent["c"]) + len(sim.sent["s"]))
        sig = h64(tuple(sim.log))
        if sig not in sigs:
            sigs.add(sig)
            acc.count("distinct-interleaving-signatures")
        if sim.maxdepth >= 2 and sim.partial:
            acc.nontrivial(tuple(sim.log), sim.marker)
        if i < 2:
            acc.sample({"seed_parts": parts, "log": sim.log[:40], "sent_c": len(sim.sent["c"]), "sent_s": len(sim.sent["s"]), "terminated": sim.terminated})
        for key, what in sim.vio:
            acc.violation(key, what, {"seed_parts": list(parts), "steps_n": steps_n, "want_term": want, "log_tail": sim.log[-30:],
                                      "client_trace_tail": sim.c.trace[-4:], "server_trace_tail": sim.s.trace[-4:]})


def replay(w):
    if w.get("flood"):
        return flood(w["flood"])
    if w.get("scripted"):
        return scripted(*w["scripted"]).vio[:2]
    if "late_types" in w:
        return late_types(w["late_types"])
    sim = run_sim(tuple(w["seed_parts"]), w["steps_n"], w.get("want_term"))
    return sim.vio
