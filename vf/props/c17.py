"""C17 - schema text is parsed as RFC 4512 defines it; total outside the grammar."""
from __future__ import annotations

import re

from vf import absval as av
from vf.common import rng_for, Acc, CpuTimeout, Ctx, cpu_limit, norm_msg
from vf.gen import schema as gs
from vf.ref import rfc4512

sl = av.sl
LEVEL = "exploration"
RULE = (
    "(1) grammar sentences: definition -> text with every spacing choice (WSP 0-3, SP 1-3 spaces at each site independently), single vs "
    "parenthesised name/OID/string lists, '$' spacing, \\27 \\5c \\5C escapes, 0-4 extensions with single/list values and X-/x- prefix, "
    "quoted SYNTAX variant; oracle: every field of from_string(text) equals the independent reference parse (= generating definition). "
    "(2) totality: random strings and every single-character edit of sentences must return a definition or raise ValueError. "
    "non-trivial = sentence with >= 1 site in non-canonical spacing, or any non-sentence; distinct by hash of the text"
)
ASSUMPTIONS = [
    "keywords are generated in upper case, as the property states; duplicate extension names are not generated (DESIGN 7.9)",
    "watchdog expiry (3 CPU-seconds) in the totality part is C18's subject and is counted, not judged, here",
]
KEYWORDS = ["NAME", "DESC", "OBSOLETE", "SUP", "ABSTRACT", "STRUCTURAL", "AUXILIARY", "MUST", "MAY", "EQUALITY", "ORDERING", "SUBSTR", "SYNTAX", "SINGLE-VALUE",
            "COLLECTIVE", "NO-USER-MODIFICATION", "USAGE", "AUX", "NOT", "X-"]
EDIT_CHARS = list("()'$\\{} -XN0a.\n|") + ["é"]


def shards(tier):
    return 16


def gates(c, tier):
    out = [f"keyword {k} never rendered" for k in KEYWORDS if c.get("kw:" + k, 0) == 0]
    sites = {}
    for k in c:
        if k.startswith(("SP:", "WSP:")):
            kind, site, n = k.split(":")
            sites.setdefault((kind, site), set()).add(n)
    thin = [f"{a}:{b}" for (a, b), v in sites.items() if len(v) < 2]
    if thin or not sites:
        out.append("spacing sites rendered with < 2 widths: " + ",".join(thin[:6]))
    for k in ("syntax:quoted", "syntax:quoted-with-length", "oids:single", "oids:paren", "esc:27", "esc:5c", "esc:5C", "part:sentence", "malformed-inputs-interleaved", "part:many-extensions", "part:random", "part:edits", "outcome:ValueError", "outcome:definition"):
        if c.get(k, 0) == 0:
            out.append(f"never observed {k}")
    if c.get("shard-stopped-early-after-cpu-timeouts", 0):
        out.append(f"{c['shard-stopped-early-after-cpu-timeouts']} shards stopped early after repeated CPU-watchdog expiries (C18's subject)")
    if c.get("oracle_disagreement", 0):
        out.append(f"oracle_disagreement = {c['oracle_disagreement']}")
    return out[:10]


def check_sentence(kind, text, d, budget=3):
    try:
        with cpu_limit(budget):
            got = gs.cls_of(sl, kind).from_string(text)
    except CpuTimeout:
        return [("sentence-cpu-timeout", f"grammar sentence ({len(text)} chars) not parsed within 3 CPU-seconds: {text[:100]!r}")]
    except ValueError as e:
        feat = "ext-name-followed-by-2+-spaces" if re.search(r"[Xx]-[A-Za-z_-]+  +['(]", text) else norm_msg(e, 30)
        return [(f"sentence-rejected:{feat}", f"RFC 4512 sentence rejected with {type(e).__name__}: {e}; text {text[:160]!r}")]
    except Exception as e:
        return [(f"sentence-exc:{type(e).__name__}", f"{type(e).__name__}: {e}; text {text[:160]!r}")]
    a = gs.from_obj(kind, got)
    if a != d:
        fld = next((k for k in d if a.get(k) != d[k]), "?")
        feat = ":ext-name-followed-by-2+-spaces" if (fld == "extensions" and re.search(r"[Xx]-[A-Za-z_-]+  +['(]", text)) else ""
        return [(f"sentence-misparsed:{kind}:{fld}{feat}", f"field {fld}: parsed {a.get(fld)!r}, grammar denotes {d[fld]!r}; text {text[:160]!r}")]
    return []


def check_total(kind, text):
    """Returns (violations, outcome)."""
    try:
        with cpu_limit(3):
            gs.cls_of(sl, kind).from_string(text)
        return [], "definition"
    except CpuTimeout:
        return [], "cpu-timeout"
    except ValueError:
        return [], "ValueError"
    except Exception as e:
        return [(f"escape:{type(e).__name__}", f"{kind}.from_string({text[:100]!r}) raised {type(e).__name__}: {e}")], "other"


def edits(s):
    n = len(s)
    for i in range(n):
        yield s[:i] + s[i + 1 :]
    for i in range(n + 1):
        for ch in EDIT_CHARS:
            yield s[:i] + ch + s[i:]
            if i < n and s[i] != ch:
                yield s[:i] + ch + s[i + 1 :]


def run_shard(ctx: Ctx, acc: Acc):
    n = ctx.scale(80_000, 2_000_000)
    for i in range(n):
        r = ctx.rng(i)
        kind, d = gs.g_def(r, gs.KINDS[i % 3])
        rd = gs.Render(r)
        text = rd.definition(kind, d)
        acc.case()
        acc.count("part:sentence")
        try:
            ref = rfc4512.PARSERS[kind](text)
        except rfc4512.SchemaRefError as e:
            acc.count("oracle_disagreement")
            acc.notes.append(f"reference parser rejected generated sentence {text[:120]!r}: {e}")
            continue
        if ref != d:
            acc.count("oracle_disagreement")
            acc.notes.append(f"reference parse differs for {text[:120]!r}")
            continue
        for u in rd.used:
            acc.count(u)
        if any(u.startswith(("SP:", "WSP:")) and not u.endswith(":1") for u in rd.used):
            acc.nontrivial(text)
        if i < 3:
            acc.sample({"kind": kind, "text": text, "definition": d})
        if i % 3 == 0:
            # the same text offered to the two other kinds of definition first (refused, or accepted when the sentence is
            # valid for both): the verdict for one kind says nothing about another
            for other in gs.KINDS:
                if other != kind:
                    vio_b, outcome_b = check_total(other, text)
                    acc.count("tried-as-other-kind-first:" + outcome_b)
                    for key, what in vio_b:
                        acc.violation(key, what, {"kind": other, "text": text, "total": True})
        if i % 2:
            # failures first: a truncated, an unbalanced and a keyword-damaged variant are refused before the sentence is parsed
            for broken in (text[:-1], text.replace("'", "", 1), text.replace("(", "( (", 1), "( " + text):
                vio_b, outcome_b = check_total(kind, broken)
                if outcome_b == "ValueError":
                    acc.count("malformed-inputs-interleaved")
                for key, what in vio_b:
                    acc.violation(key, what, {"kind": kind, "text": broken, "total": True})
        for key, what in check_sentence(kind, text, d):
            acc.violation(key, what, {"kind": kind, "text": text})
            if key == "sentence-cpu-timeout":
                acc.count("cpu-timeouts")
        if acc.counters.get("cpu-timeouts", 0) >= 4:
            acc.count("shard-stopped-early-after-cpu-timeouts")
            return
    # "any number of extensions": definitions with hundreds to thousands of extensions, names and list members
    sizes = [150, 400, 1100, 2600] if not ctx.thorough else [150, 400, 1100, 2600, 6000]
    for si, size in enumerate(sizes):
        for ki, kind in enumerate(gs.KINDS):
            if (si * 3 + ki) % ctx.nshards != ctx.shard:
                continue
            d = gs.many_def(ctx.seed, kind, size)
            r = rng_for("C17many", ctx.seed, size, kind)
            text = gs.Render(r).definition(kind, d)
            acc.case()
            acc.count("part:many-extensions")
            acc.nontrivial("many", kind, size)
            try:
                if rfc4512.PARSERS[kind](text) != d:
                    raise rfc4512.SchemaRefError("differs")
            except (rfc4512.SchemaRefError, RecursionError) as e:
                acc.count("oracle_disagreement")
                acc.notes.append(f"reference parser on the {size}-extension sentence: {type(e).__name__} {e}")
                continue
            for key, what in check_sentence(kind, text, d, budget=30):
                acc.violation(key + ":many-extensions", what[:300], {"kind": kind, "many": [ctx.seed, size]})
    # totality
    for j in range(n // 8):
        r = ctx.rng("rand", j)
        kind = gs.KINDS[j % 3]
        alphabet = ["(", ")", " ", "'", "\\", "$", "{", "}", "1.2", "1", ".", "NAME", "DESC", "SUP", "MUST", "MAY", "X-A", "x-", "SYNTAX", "USAGE", "a", "\\27", "\\5c", "é", "\n", "  "]
        text = "".join(r.choice(alphabet) for _ in range(r.choice([0, 1, 3, 6, 10, 20])))
        if r.random() < 0.5:
            text = "( 1.2 " + text
        acc.case()
        acc.count("part:random")
        vio, outcome = check_total(kind, text)
        acc.count("outcome:" + outcome)
        if acc.counters.get("outcome:cpu-timeout", 0) >= 6:
            acc.count("shard-stopped-early-after-cpu-timeouts")
            return
        acc.nontrivial(kind, text)
        for key, what in vio:
            acc.violation(key, what, {"kind": kind, "text": text, "total": True})
    for j in range(max(1, n // 6000)):
        r = ctx.rng("edit", j)
        kind, d = gs.g_def(r, gs.KINDS[(j + ctx.shard) % 3])
        d["names"] = d["names"][:1]
        d["extensions"] = dict(list(d["extensions"].items())[:1])
        if d["description"] and len(d["description"]) > 8:
            d["description"] = d["description"][:8] or "d"
        text = gs.Render(r, canonical=r.random() < 0.5).definition(kind, d)
        if len(text) > 160:
            continue
        for t in edits(text):
            acc.case()
            acc.count("part:edits")
            vio, outcome = check_total(kind, t)
            acc.count("outcome:" + outcome)
            if acc.counters.get("outcome:cpu-timeout", 0) >= 6:
                acc.count("shard-stopped-early-after-cpu-timeouts")
                return
            acc.nontrivial(kind, t)
            for key, what in vio:
                acc.violation(key, what, {"kind": kind, "text": t, "total": True})


def replay(w):
    if w.get("many"):
        seed, size = w["many"]
        d = gs.many_def(seed, w["kind"], size)
        text = gs.Render(rng_for("C17many", seed, size, w["kind"])).definition(w["kind"], d)
        return [(k + ":many-extensions", x) for k, x in check_sentence(w["kind"], text, d, budget=30)]
    if w.get("total"):
        return check_total(w["kind"], w["text"])[0]
    try:
        d = rfc4512.PARSERS[w["kind"]](w["text"])
    except rfc4512.SchemaRefError:
        return []
    return check_sentence(w["kind"], w["text"], d)
