"""C09 - client correlates responses to requests strictly by message ID (online trace checker vs model)."""
from __future__ import annotations

from vf import absval as av
from vf.common import Acc, Ctx, to_tuple
from vf.gen import corrupt as C
from vf.gen import histories as H
from vf.gen import values as gv
from vf.mon.driver import Driver
from vf.ref import rfc4511
from vf.ref.session_model import NOTICE_OID

sl = av.sl
LEVEL = "exploration"
RULE = (
    "client-only histories of 5-60 steps; the 'server' is the harness fabricating responses with the reference encoder: every response "
    "kind x id class {in progress, completed, never issued, 0, negative, 2^31}, request-type messages, batched several per delivery and "
    "chunked at random offsets, interleaved with new requests, refused requests and closure. Oracle: ids returned are positive, strictly "
    "increasing and equal to the messageID strictly decoded from the emitted bytes; a response is accepted iff its id is in progress per the "
    "model (search stays until SearchResultDone, everything else retires on first response); otherwise ProtocolError and CLOSED; "
    "non-trivial = >= 2 concurrent operations or a rejected response; distinct by hash of the concrete steps"
)
ASSUMPTIONS = ["responses are reference-encoded, so acceptance does not depend on the library's own packer"]
KINDS = ["BindResponse", "SearchResultEntry", "SearchResultReference", "SearchResultDone", "ExtendedResponse"]
IDCLASSES = ["in-progress", "completed", "never-issued", "zero", "negative", "2^31"]


def shards(tier):
    return 16


def gates(c, tier):
    out = []
    for k in KINDS:
        for ic in IDCLASSES:
            if c.get(f"cell:{k}:{ic}", 0) == 0:
                out.append(f"no {k} with id class {ic}")
    for k in ("search-with>=3-results-before-done", "duplicate-final-response", "request-type-delivered", "batched-delivery", "chunked-delivery",
              "accepted-response", "rejected-response", "ids-checked", "response-with-paged-control", "long-lived-client", "many-outstanding-operations", "negative-id-aliasing-an-operation-in-progress", "entries-beyond-the-requested-size-limit", "long-id-sequence"):
        if c.get(k, 0) == 0:
            out.append(f"never observed {k}")
    return out[:12]


def body_for(r, kind):
    res = (r.choice([0, 0, 14, 49, 4, 10] + gv.RESULT_CODES + gv.UNKNOWN_CODES[:12]), "", r.choice(["", "d"]), r.choice([None, None, ("ldap://r/",)]))
    return {
        "BindResponse": (res, r.choice([None, b"", b"tok"])),
        "SearchResultEntry": ("cn=e", ((("cn"), (b"v",)),)),
        "SearchResultReference": (("ldap://y/",),),
        "SearchResultDone": (res,),
        # names near the notice of disconnection (prefixes, suffixes, other spellings of its arcs) are ordinary response names
        "ExtendedResponse": (res, r.choice([None, "1.2.3", "1.3.6.1.4.1.1466.20037", NOTICE_OID + "0", NOTICE_OID[:-1], gv.g_lookalike_oid(r, NOTICE_OID), gv.g_lookalike_oid(r, NOTICE_OID)]),
                             r.choice([None, b"v"])),
    }[kind]


def pick_id(r, drv, completed, ic):
    ip = sorted(drv.model.ip)
    if ic == "in-progress":
        return r.choice(ip) if ip else None
    if ic == "completed":
        c = [i for i in completed if i not in drv.model.ip]
        return r.choice(c) if c else None
    if ic == "never-issued":
        return drv.model.last_id + r.choice([1, 2, 50])
    if ic == "zero":
        return 0
    if ic == "negative":
        return r.choice([-1, -128, -(2**31)])
    return 2**31 + r.choice([0, 1])


def run_steps(steps):
    drv = Driver("client", "drain")
    for a in steps:
        vio = drv.step(tuple(a))
        if vio:
            return vio, drv
    return [], drv


def many_outstanding(seed, n_ops, order):
    """n_ops operations outstanding at once (searches and extended operations, bind last when everything is answered),
    answered oldest-first, newest-first, randomly or interleaved with entries; then every id is answered once more
    (must be refused). Returns the concrete steps."""
    import random

    r = random.Random(seed)
    steps = []
    kinds = {}
    for k in range(1, n_ops + 1):
        if r.random() < 0.5:
            steps.append(("search", "dc=x", 2, 0, 0, 0, False, None, None, None))
            kinds[k] = "search"
        else:
            steps.append(("extended", "1.2.3", None, None))
            kinds[k] = "extended"
    ids = list(range(1, n_ops + 1))
    if order == "newest-first":
        ids.reverse()
    elif order == "random":
        r.shuffle(ids)
    elif order == "evens-then-odds":
        ids = [i for i in ids if i % 2 == 0] + [i for i in ids if i % 2]
    res = (0, "", "", None)
    for j, mid in enumerate(ids):
        if kinds[mid] == "search":
            if j % 3 == 0:
                steps.append(("receive", rfc4511.encode(("SearchResultEntry", mid, ("cn=e", ()), ()))))
            steps.append(("receive", rfc4511.encode(("SearchResultDone", mid, (res,), ()))))
        else:
            steps.append(("receive", rfc4511.encode(("ExtendedResponse", mid, (res, None, None), ()))))
    # everything answered: a bind may start now; afterwards one of the retired ids is answered again (refused)
    steps.append(("bind_simple", "cn=a", "pw", None))
    steps.append(("receive", rfc4511.encode(("BindResponse", n_ops + 1, (res, None), ()))))
    steps.append(("receive", rfc4511.encode(("SearchResultDone", r.choice(ids), (res,), ()))))
    return steps


def beyond_size_limit(seed, limit, extra):
    """A search with sizeLimit=limit for which the server streams limit+extra entries (and references) before done: the
    limit is a request to the server, the client correlates by id only."""
    import random

    r = random.Random(seed)
    steps = [("search", "dc=x", 2, 0, limit, 0, False, None, None, None), ("search", "dc=y", 1, 0, 0, 7, False, None, None, None)]
    for j in range(limit + extra):
        steps.append(("receive", rfc4511.encode(("SearchResultEntry", 1, ("cn=e%d" % j, ()), ()))))
        if j % 3 == 1:
            steps.append(("receive", rfc4511.encode(("SearchResultReference" if j % 2 else "SearchResultEntry", r.choice([1, 2]), (("ldap://r/",),) if j % 2 else ("cn=o", ()), ()))))
    steps.append(("receive", rfc4511.encode(("SearchResultDone", 1, ((4, "", "", None),), ()))))
    steps.append(("receive", rfc4511.encode(("SearchResultDone", 2, ((0, "", "", None),), ()))))
    return steps


def negative_alias(seed, n_ops, alias_of):
    """n_ops operations in progress (ids 1..n_ops); then a response whose messageID is alias_of - 2^8 / - 2^16 (the same
    low octets as an id in progress, but a negative INTEGER): an id that is not in progress."""
    import random

    r = random.Random(seed)
    steps = [("extended", "1.2.3", None, None) if r.random() < 0.5 else ("search", "dc=x", 2, 0, 0, 0, False, None, None, None) for _ in range(n_ops)]
    wire_id = alias_of - (256 if alias_of < 256 else 65536)
    kind = r.choice(["SearchResultDone", "ExtendedResponse", "SearchResultEntry"])
    body = {"SearchResultDone": ((0, "", "", None),), "ExtendedResponse": ((0, "", "", None), None, None), "SearchResultEntry": ("cn=e", ())}[kind]
    steps.append(("receive", rfc4511.encode((kind, wire_id, body, ()))))
    return steps


def long_id_sequence(n_req):
    """One client issuing n_req requests (most answered at once, some left open): the ids returned are positive, strictly
    increasing and are the ids in the emitted bytes - also past 2^15 and 2^16."""
    from vf.ref import ber

    c = sl.LDAPClient()
    last = 0
    res = rfc4511.encode
    for k in range(n_req):
        mid = c.extended_request("1.2.3") if k % 7 else c.search_request("dc=x")
        if not isinstance(mid, int) or mid <= last:
            return [("ids-not-increasing:long-lived", f"request #{k + 1} got id {mid!r} after {last}")]
        data = c.data_to_send()
        root = ber.parse(data)
        wire = int.from_bytes(root.children[0].content, "big", signed=True)
        if wire != mid:
            return [("emitted-differs:long-lived:id", f"request #{k + 1}: returned id {mid}, id in the bytes {wire}")]
        last = mid
        if k % 5:
            c.receive(res(("ExtendedResponse", mid, ((0, "", "", None), None, None), ())) if k % 7 else res(("SearchResultDone", mid, ((0, "", "", None),), ())))
    return []


def run_shard(ctx: Ctx, acc: Acc):
    if ctx.shard == 3:
        acc.case()
        acc.count("long-id-sequence")
        acc.nontrivial("long-ids")
        for key, what in long_id_sequence(70_000):
            acc.violation(key, what, {"long_ids": 70_000})
    for ci, (limit, extra) in enumerate([(1, 1), (1, 5), (2, 1), (5, 3), (10, 1), (100, 30), (1000, 2)]):
        if ci % ctx.nshards != ctx.shard:
            continue
        acc.case()
        acc.count("entries-beyond-the-requested-size-limit")
        acc.nontrivial("beyond", limit, extra)
        vio, drv = run_steps(beyond_size_limit(ctx.seed + ci, limit, extra))
        if not vio and drv.sess.state.name == "CLOSED":
            vio = [("closed-by-entries-beyond-size-limit", "client CLOSED")]
        for key, what in vio:
            acc.violation(key, what + f" [search with size_limit={limit}, server sent {limit + extra} entries]", {"beyond": [ctx.seed + ci, limit, extra]})
    for ci, alias_of in enumerate([128, 129, 200, 254, 255, 256, 300]):
        if ci % ctx.nshards != ctx.shard:
            continue
        acc.case()
        acc.count("negative-id-aliasing-an-operation-in-progress")
        acc.nontrivial("alias", alias_of)
        vio, drv = run_steps(negative_alias(ctx.seed + ci, 310, alias_of))
        if not vio and drv.sess.state.name != "CLOSED":
            vio = [("negative-id-accepted", f"a response with a negative messageID sharing the low octets of operation {alias_of} left the client {drv.sess.state.name}")]
        for key, what in vio:
            acc.violation(key, what + f" [response id = {alias_of} - 2^k]", {"alias": [ctx.seed + ci, 310, alias_of]})
    combos = [(n_ops, order) for n_ops in (2, 33, 64, 257, 1000) for order in ("oldest-first", "newest-first", "random", "evens-then-odds")]
    for ci, (n_ops, order) in enumerate(combos):
        if ci % ctx.nshards != ctx.shard:
            continue
        acc.case()
        acc.count("many-outstanding-operations")
        acc.nontrivial("many", n_ops, order)
        vio, drv = run_steps(many_outstanding(ctx.seed * 131 + ci, n_ops, order))
        acc.count("trace-events", len(drv.trace))
        if not vio and (drv.sess.state.name != "CLOSED" or drv.model.how_closed != "unknown-id"):
            vio = [("many-outstanding:final-duplicate-not-refused", f"{n_ops} operations answered {order}: the repeated final response left state {drv.sess.state.name}")]
        for key, what in vio:
            acc.violation(key, what + f" [{n_ops} operations outstanding at once, answered {order}]", {"many": [ctx.seed * 131 + ci, n_ops, order]})
    n = ctx.scale(40_000, 1_000_000)
    for i in range(n):
        r = ctx.rng(i)
        drv = Driver("client", "drain")
        completed = []
        steps = []
        acc.case()
        bad = None
        results_per_search = {}
        maxconc = 0
        rejected = False
        pending_tail = b""
        if i % 50 == 7:
            acc.count("long-lived-client")
            for _k in range(258 + i % 5):
                a0 = ("extended", "1.2.3", None, None)
                steps.append(a0)
                bad = drv.step(a0) or bad
                a1 = ("receive", rfc4511.encode(("ExtendedResponse", drv.model.last_id, ((0, "", "", None), None, None), ())))
                steps.append(a1)
                bad = drv.step(a1) or bad
                if bad:
                    break
        for _ in range(r.choice([5, 10, 20, 40, 60]) if not bad else 0):
            x = r.random()
            if pending_tail:
                a = ("receive", pending_tail)
                pending_tail = b""
            elif x < 0.35:
                a = H.client_api_action(r)
                if a[0] == "unbind" and r.random() < 0.8:
                    a = ("search", None, 2, 0, 0, 0, False, None, None, None)
            elif x < 0.93:
                msgs = []
                for _k in range(r.choice([1, 1, 1, 2, 3])):
                    kind = r.choice(KINDS)
                    ic = r.choice(IDCLASSES) if r.random() < 0.45 else "in-progress"
                    mid = pick_id(r, drv, completed, ic)
                    if mid is None:
                        continue
                    if ic == "in-progress" and r.random() < 0.7:
                        # matching kind for the operation (keeps conversations going)
                        opk = drv.model.ip[mid]
                        kind = {"bind": "BindResponse", "extended": "ExtendedResponse"}.get(opk) or r.choice(["SearchResultEntry", "SearchResultEntry", "SearchResultReference", "SearchResultDone"])
                    acc.count(f"cell:{kind}:{ic}")
                    ctl = ()
                    y = r.random()
                    if y < 0.25:
                        ctl = (("1.2.840.113556.1.4.319", r.random() < 0.5, None, ("paged", r.choice([0, 100]), r.choice([b"", b"cookie", b"\x00"]))),)
                        acc.count("response-with-paged-control")
                    elif y < 0.4:
                        ctl = gv.g_controls(r, gv.SMALL)
                    msgs.append((kind, mid, body_for(r, kind), ctl))
                if not msgs:
                    continue
                if len(msgs) > 1:
                    acc.count("batched-delivery")
                data = b"".join(rfc4511.encode(m) for m in msgs)
                if r.random() < 0.3 and len(data) > 2:
                    k = r.randrange(1, len(data))
                    data, pending_tail = data[:k], data[k:]
                    acc.count("chunked-delivery")
                a = ("receive", data)
            elif x < 0.97:
                a = ("receive", rfc4511.encode(r.choice([("SearchRequest", 1, ("", 2, 0, 0, 0, False, ("present", "cn"), ()), ()),
                                                        ("BindRequest", 2, (3, "", ("simple", "")), ()), ("ExtendedRequest", 1, ("1.2", None), ())])))
                acc.count("request-type-delivered")
            else:
                a = ("receive", rfc4511.encode(("ExtendedResponse", 0, ((52, "", "", None), NOTICE_OID, None), ())))
            steps.append(a)
            before = dict(drv.model.ip)
            vio = drv.step(a)
            ev = drv.trace[-1]
            if a[0] == "receive":
                if ev["outcome"] == "ok" and ev["model_outcome"] == "ok":
                    acc.count("accepted-response")
                elif ev["outcome"] != "ok":
                    acc.count("rejected-response")
                    rejected = True
            gone = set(before) - set(drv.model.ip)
            for g in gone:
                if g in completed:
                    pass
                completed.append(g)
            maxconc = max(maxconc, len(drv.model.ip))
            if vio:
                bad = vio
                break
        # evidence about what the monitor saw
        acc.count("trace-events", len(drv.trace))
        ids = drv.ids_returned
        if ids:
            acc.count("ids-checked", len(ids))
            if any(b <= a_ for a_, b in zip(ids, ids[1:])) or ids[0] <= 0:
                bad = (bad or []) + [("ids-not-increasing", f"ids returned {ids[:20]}")]
        # count searches with >= 3 results before done and duplicate finals from the trace of concrete steps
        seen = {}
        finals = set()
        for a in steps:
            if a[0] != "receive":
                continue
            try:
                ms, _ = rfc4511.decode_stream(a[1])
            except Exception:
                continue
            for m in ms:
                if m[0] in ("SearchResultEntry", "SearchResultReference"):
                    seen[m[1]] = seen.get(m[1], 0) + 1
                elif m[0] == "SearchResultDone":
                    if seen.get(m[1], 0) >= 3:
                        acc.count("search-with>=3-results-before-done")
                    if m[1] in finals:
                        acc.count("duplicate-final-response")
                    finals.add(m[1])
                elif m[0] in ("ExtendedResponse", "BindResponse"):
                    if m[1] in finals:
                        acc.count("duplicate-final-response")
                    finals.add(m[1])
        if maxconc >= 2 or rejected:
            acc.nontrivial(steps)
        if i < 2:
            acc.sample({"steps": [(a[0], a[1][:24] if a[0] == "receive" else None) for a in steps][:25], "ids_returned": ids[:10], "trace_tail": drv.trace[-2:]})
        if bad:
            for key, what in bad:
                acc.violation(key, what, {"steps": steps})


def replay(w):
    if w.get("many"):
        return run_steps(many_outstanding(*w["many"]))[0]
    if w.get("long_ids"):
        return long_id_sequence(w["long_ids"])
    if w.get("beyond"):
        return run_steps(beyond_size_limit(*w["beyond"]))[0]
    if w.get("alias"):
        return run_steps(negative_alias(*w["alias"]))[0]
    vio, drv = run_steps([to_tuple(a) for a in w["steps"]])
    ids = drv.ids_returned
    if ids and (any(b <= a_ for a_, b in zip(ids, ids[1:])) or ids[0] <= 0):
        vio = vio + [("ids-not-increasing", f"ids returned {ids[:20]}")]
    return vio
