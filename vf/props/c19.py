"""C19 - sessions are isolated; custom types take effect per session only (isolated vs interleaved transcripts)."""
from __future__ import annotations

import dataclasses
import json
import os
import struct
import sys
import threading
import typing as t

from vf import absval as av
from vf.common import Acc, Ctx, jsonable, to_tuple
from vf.gen import histories as H
from vf.gen import values as gv
from vf.mon.driver import Driver
from vf.ref import ber, rfc4511

sl = av.sl
A = sl.asn1
LEVEL = "exploration"
RULE = (
    "2-3 single-session call sequences (client or server; API calls, crafted receives incl. bytes carrying custom control / filter / "
    "credential types, registrations of harness-defined custom types on a random subset of sessions, duplicate registrations) are run "
    "alone and then on fresh instances interleaved under >= 20 random schedules + both sequential orders + strict alternation (thorough: "
    "one thread per session with a 1 us switch interval); per-call transcript = (repr of the return value | exception class and text, state, "
    "drained bytes) must be identical; plus direct checks: registered session decodes to the custom class and re-encodes identically, "
    "unregistered session yields a generic control / ProtocolError, duplicate registration raises ValueError; non-trivial = interleaving "
    "with >= 3 alternations involving a registration or a receive; distinct by hash of (sequences, schedule)"
)
ASSUMPTIONS = ["sessions are never shared between threads; only module-level state could couple them"]

CUSTOM_CONTROL_OID = "1.2.3.4.99"
ORDER_FLIP = 0  # set from the shard number: which of two colliding custom types is packed first in this process


@dataclasses.dataclass(frozen=True)
class CustomControl(sl.LDAPControl):
    control_type: str = dataclasses.field(init=False, repr=False, default=CUSTOM_CONTROL_OID)
    value: t.Optional[bytes] = dataclasses.field(init=False, repr=False, default=None)
    size: int = 0

    def get_value(self, options):
        return struct.pack("<I", self.size)

    @classmethod
    def unpack(cls, control_type, critical, value, options):
        return CustomControl(critical=critical, size=struct.unpack("<I", (value or b"\x00\x00\x00\x00")[:4].ljust(4, b"\x00"))[0])


@dataclasses.dataclass(frozen=True)
class CustomFilter(sl.LDAPFilter):
    filter_id: int = dataclasses.field(init=False, repr=False, default=1024)
    value: str = ""

    def pack(self, writer, options):
        writer.write_octet_string(self.value.encode(options.string_encoding), tag=A.ASN1Tag(A.TagClass.CONTEXT_SPECIFIC, self.filter_id, False))

    @classmethod
    def unpack(cls, reader, options):
        v = reader.read_octet_string(A.ASN1Tag(A.TagClass.CONTEXT_SPECIFIC, cls.filter_id, False)).decode("utf-8")
        return CustomFilter(value=v)


@dataclasses.dataclass(frozen=True)
class CustomAuth(sl.AuthenticationCredential):
    auth_id: int = dataclasses.field(init=False, repr=False, default=1024)
    username: str = ""

    def pack(self, writer, options):
        writer.write_octet_string(self.username.encode(options.string_encoding), tag=A.ASN1Tag(A.TagClass.CONTEXT_SPECIFIC, self.auth_id, False))

    @classmethod
    def unpack(cls, reader, options):
        v = reader.read_octet_string(tag=A.ASN1Tag(A.TagClass.CONTEXT_SPECIFIC, cls.auth_id, False)).decode("utf-8")
        return CustomAuth(username=v)


@dataclasses.dataclass(frozen=True)
class OtherControl(sl.LDAPControl):
    control_type: str = dataclasses.field(init=False, repr=False, default="1.2.3.4.98")
    value: t.Optional[bytes] = dataclasses.field(init=False, repr=False, default=None)
    tag: bytes = b""

    def get_value(self, options):
        return self.tag

    @classmethod
    def unpack(cls, control_type, critical, value, options):
        return OtherControl(critical=critical, tag=value or b"")


@dataclasses.dataclass(frozen=True)
class OtherFilter(sl.LDAPFilter):
    filter_id: int = dataclasses.field(init=False, repr=False, default=1025)
    raw: bytes = b""

    def pack(self, writer, options):
        writer.write_octet_string(self.raw, tag=A.ASN1Tag(A.TagClass.CONTEXT_SPECIFIC, self.filter_id, False))

    @classmethod
    def unpack(cls, reader, options):
        return OtherFilter(raw=reader.read_octet_string(A.ASN1Tag(A.TagClass.CONTEXT_SPECIFIC, cls.filter_id, False)))


@dataclasses.dataclass(frozen=True)
class OtherAuth(sl.AuthenticationCredential):
    auth_id: int = dataclasses.field(init=False, repr=False, default=1025)
    token: bytes = b""

    def pack(self, writer, options):
        # constructed [1025]: same class and number as the primitive OtherFilter [1025]
        with writer.push_sequence(A.ASN1Tag(A.TagClass.CONTEXT_SPECIFIC, self.auth_id, True)) as w:
            w.write_octet_string(self.token)

    @classmethod
    def unpack(cls, reader, options):
        inner = reader.read_sequence(tag=A.ASN1Tag(A.TagClass.CONTEXT_SPECIFIC, cls.auth_id, True))
        return OtherAuth(token=inner.read_octet_string())


@dataclasses.dataclass(frozen=True)
class SubclassOfKnownControl(sl.ShowDeletedControl):
    """An application type derived from a library-known control type, with its own OID. Defining it registers nothing."""
    control_type: str = dataclasses.field(init=False, repr=False, default="1.2.3.4.96")

    @classmethod
    def unpack(cls, control_type, critical, value, options):
        return SubclassOfKnownControl(critical=critical)


@dataclasses.dataclass(frozen=True)
class SubEqualityFilter(sl.FilterEquality):
    """An application filter derived from a built-in one (inherits pack and the fields), under its own number."""
    filter_id: int = dataclasses.field(init=False, repr=False, default=1026)

    @classmethod
    def unpack(cls, reader, options):
        inner = reader.read_sequence(A.ASN1Tag(A.TagClass.CONTEXT_SPECIFIC, cls.filter_id, True))
        attr = inner.read_octet_string().decode(options.string_encoding)
        return SubEqualityFilter(attr, inner.read_octet_string())


@dataclasses.dataclass(frozen=True)
class AltFilter(sl.LDAPFilter):
    """Another application's filter type that happens to use the same number as CustomFilter (in another session)."""
    filter_id: int = dataclasses.field(init=False, repr=False, default=1024)
    alt: bytes = b""

    def pack(self, writer, options):
        writer.write_octet_string(self.alt, tag=A.ASN1Tag(A.TagClass.CONTEXT_SPECIFIC, self.filter_id, False))

    @classmethod
    def unpack(cls, reader, options):
        return AltFilter(alt=reader.read_octet_string(A.ASN1Tag(A.TagClass.CONTEXT_SPECIFIC, cls.filter_id, False)))


@dataclasses.dataclass(frozen=True)
class AltAuth(sl.AuthenticationCredential):
    auth_id: int = dataclasses.field(init=False, repr=False, default=1024)
    alt: bytes = b""

    def pack(self, writer, options):
        writer.write_octet_string(self.alt, tag=A.ASN1Tag(A.TagClass.CONTEXT_SPECIFIC, self.auth_id, False))

    @classmethod
    def unpack(cls, reader, options):
        return AltAuth(alt=reader.read_octet_string(tag=A.ASN1Tag(A.TagClass.CONTEXT_SPECIFIC, cls.auth_id, False)))


@dataclasses.dataclass(frozen=True)
class AltControl(sl.LDAPControl):
    control_type: str = dataclasses.field(init=False, repr=False, default=CUSTOM_CONTROL_OID)
    value: t.Optional[bytes] = dataclasses.field(init=False, repr=False, default=None)
    alt: bytes = b""

    def get_value(self, options):
        return self.alt

    @classmethod
    def unpack(cls, control_type, critical, value, options):
        return AltControl(critical=critical, alt=value or b"")


@dataclasses.dataclass(frozen=True)
class ClashControl(sl.LDAPControl):  # same OID as a built-in: registration must be refused
    control_type: str = dataclasses.field(init=False, repr=False, default="1.2.840.113556.1.4.319")


@dataclasses.dataclass(frozen=True)
class ClashFilter(sl.LDAPFilter):
    filter_id: int = dataclasses.field(init=False, repr=False, default=3)


@dataclasses.dataclass(frozen=True)
class ClashAuth(sl.AuthenticationCredential):
    auth_id: int = dataclasses.field(init=False, repr=False, default=0)


SHARED_BUFFER: t.Optional[bytearray] = None  # set per run: every session of the run is fed through this one caller-owned buffer


REG = {"control2": ("register_control", OtherControl), "filter2": ("register_filter", OtherFilter), "auth2": ("register_auth_credential", OtherAuth),
       "control": ("register_control", CustomControl), "filter": ("register_filter", CustomFilter), "auth": ("register_auth_credential", CustomAuth),
       "clash-control": ("register_control", ClashControl), "clash-filter": ("register_filter", ClashFilter), "clash-auth": ("register_auth_credential", ClashAuth)}


def shards(tier):
    return 16


def gates(c, tier):
    out = []
    for k in ("schedule:random", "schedule:sequential", "schedule:alternation", "alternations>=10", "direct:registered-decodes-custom",
              "direct:unregistered-generic-control", "direct:unregistered-filter-protocolerror", "direct:unregistered-auth-protocolerror",
              "direct:duplicate-refused", "direct:builtin-clash-refused", "custom-bytes-in-sequence", "registration-in-sequence",
              "caller-buffer-shared-between-sessions", "direct:multi-control-messages", "direct:same-number-different-form", "direct:nested-custom-filter", "direct:deepcopy-independence", "fresh-process-reference-runs",
              "direct:late-registration-decodes-custom", "direct:free-id-registrations", "direct:fresh-session-after-foreign-failure", "direct:one-memoryview-two-sessions", "direct:subclass-of-known-control", "direct:same-id-different-class", "direct:errors-are-per-session", "direct:registration-order", "direct:control-type-strings", "direct:custom-filter-derived-from-builtin",
              "direct:fresh-session-after-many-unknown-codes", "direct:fresh-session-after-dropped-sessions"):
        if c.get(k, 0) == 0:
            out.append(f"never observed {k}")
    for sub in range(8):
        if c.get(f"registration-subset:{sub}", 0) == 0:
            out.append(f"registration subset {sub:03b} never used")
    if tier == "thorough" and c.get("schedule:threads", 0) == 0:
        out.append("threaded schedule did not run")
    return out


# ------------------------------------------------------------------ custom-typed bytes (harness-encoded)

def bytes_custom_control(mid, role):
    ctl = (CUSTOM_CONTROL_OID, True, struct.pack("<I", 77), None)
    if role == "server":
        return rfc4511.encode(("ExtendedRequest", mid, ("1.2.3", None), (ctl,)))
    return rfc4511.encode(("SearchResultEntry", mid, ("cn=x", ()), (ctl,)))


def bytes_custom_filter(mid):
    root = rfc4511.Enc().message(("SearchRequest", mid, ("dc=x", 2, 0, 0, 0, False, ("present", "cn"), ()), ()))
    root.children[1].children[6] = ber.Node(ber.CTX, False, 1024, content=b"custom-filter-value")
    return ber.ser(root)


def bytes_nested_custom_filter(mid, shape):
    """The custom filter below and / or / not (registered sessions must decode it at any depth)."""
    leaf = ber.Node(ber.CTX, False, 1024, content=b"nested-custom")
    eq = rfc4511.Enc().filter(("eq", "cn", b"x"))
    wrap = lambda tag, kids: ber.Node(ber.CTX, True, tag, children=kids)
    node = {0: wrap(1, [eq, leaf]), 1: wrap(0, [leaf, eq]), 2: wrap(2, [leaf]), 3: wrap(1, [wrap(2, [leaf])]), 4: wrap(0, [wrap(1, [leaf])]), 5: wrap(2, [wrap(1, [eq, leaf])])}[shape % 6]
    root = rfc4511.Enc().message(("SearchRequest", mid, ("dc=x", 2, 0, 0, 0, False, ("present", "cn"), ()), ()))
    root.children[1].children[6] = node
    return ber.ser(root)


def bytes_custom_auth(mid):
    root = rfc4511.Enc().message(("BindRequest", mid, (3, "cn=a", ("simple", "x")), ()))
    root.children[1].children[2] = ber.Node(ber.CTX, False, 1024, content=b"custom-user")
    return ber.ser(root)


def bytes_other(kind, mid, role):
    if kind == "control":
        ctl = ("1.2.3.4.98", False, b"tag", None)
        return rfc4511.encode(("ExtendedRequest", mid, ("1.2.3", None), (ctl,)) if role == "server" else ("SearchResultEntry", mid, ("cn=x", ()), (ctl,)))
    if kind == "filter":
        root = rfc4511.Enc().message(("SearchRequest", mid, ("dc=x", 2, 0, 0, 0, False, ("present", "cn"), ()), ()))
        root.children[1].children[6] = ber.Node(ber.CTX, False, 1025, content=b"other-filter")
        return ber.ser(root)
    root = rfc4511.Enc().message(("BindRequest", mid, (3, "cn=a", ("simple", "x")), ()))
    root.children[1].children[2] = ber.Node(ber.CTX, True, 1025, children=[ber.Node(ber.UNIV, False, 4, content=b"other-token")])
    return ber.ser(root)


def bytes_two_controls(mid, role, which):
    """Messages with two controls in orders that differ from the session's choice list."""
    C1 = (CUSTOM_CONTROL_OID, True, struct.pack("<I", 5), None)
    C2 = (CUSTOM_CONTROL_OID, False, struct.pack("<I", 6), None)
    O1 = ("1.2.3.4.98", False, b"t", None)
    U = ("1.2.3.4.5.6.7", False, b"u", None)
    P = ("1.2.840.113556.1.4.319", False, None, ("paged", 10, b"ck"))
    SD = ("1.2.840.113556.1.4.417", True, None, None)
    ctls = [(C1, C2), (C1, P), (U, P), (SD, C1), (O1, C1), (P, SD), (U, C1, P)][which % 7]
    return rfc4511.encode(("ExtendedRequest", mid, ("1.2.3", None), ctls) if role == "server" else ("SearchResultEntry", mid, ("cn=x", ()), ctls))


def bytes_known_control(mid, role, with_value):
    oid = "1.2.840.113556.1.4.417" if mid % 2 else "1.2.840.113556.1.4.2065"
    ctl = (oid, bool(mid % 3 == 0), b"unusual-value" if with_value else None, None)
    return rfc4511.encode(("ExtendedRequest", mid, ("1.2.3", None), (ctl,)) if role == "server" else ("SearchResultEntry", mid, ("cn=x", ()), (ctl,)))


# ------------------------------------------------------------------ sequences

def g_sequence(r, subset):
    """Returns (role, steps). subset: bitmask of custom registrations this session performs at some point."""
    role = r.choice(["client", "server"])
    shadow = Driver(role, "drain")
    retired: t.List[int] = []
    steps = []
    regs = [(k if r.random() < 0.6 else k + "2") for b, k in ((1, "control"), (2, "filter"), (4, "auth")) if subset & b]
    reg_at = {r.randrange(0, 8): k for k in regs}
    fresh = 20
    n = r.choice([4, 8, 14, 20])
    for i in range(n):
        if i in reg_at:
            steps.append(("register", reg_at.pop(i)))
            continue
        x = r.random()
        if x < 0.08:
            steps.append(("register", r.choice(list(REG))))
        elif x < 0.3:
            fresh += 1
            if role == "server":
                steps.append(("receive", r.choice([bytes_custom_control(fresh, role), bytes_custom_filter(fresh), bytes_custom_auth(fresh), bytes_other("control", fresh, role),
                                                   bytes_other("filter", fresh, role), bytes_other("auth", fresh, role), bytes_known_control(fresh, role, True),
                                                   bytes_known_control(fresh, role, False), bytes_two_controls(fresh, role, r.randrange(7)), bytes_two_controls(fresh, role, r.randrange(7)),
                                                   bytes_nested_custom_filter(fresh, r.randrange(6)), bytes_nested_custom_filter(fresh, r.randrange(6))])))
            else:
                ip = sorted(i_ for i_, k in shadow.model.ip.items() if k == "search")
                mid_ = ip[0] if ip else 1
                steps.append(("receive", r.choice([bytes_custom_control(mid_, role), bytes_other("control", mid_, role), bytes_known_control(mid_ + r.choice([0, 1, 2]) * 0 + (0 if ip else 0), role, True),
                                                   bytes_known_control(mid_, role, False), bytes_two_controls(mid_, role, r.randrange(7))])))
            if r.random() < 0.5 and steps and steps[-1][0] == "receive" and len(steps[-1][1]) > 4:
                # deliver it in two pieces (the first holds no complete message)
                d = steps.pop()[1]
                cut = r.randrange(1, len(d) - 1)
                steps.append(("receive", d[:cut]))
                steps.append(("receive", d[cut:]))
        elif x < 0.5:
            fresh += 1
            a = ("receive", H.crafted_for_server(r, shadow, fresh) if role == "server" else H.crafted_for_client(r, shadow, retired))
            steps.append(a)
            before = set(shadow.model.ip)
            shadow.step(a)
            retired.extend(before - set(shadow.model.ip))
        elif x < 0.58 and role == "client":
            steps.append(("custom-search", "v%d" % i))
        elif x < 0.64 and role == "client":
            steps.append(("custom-bind", "u%d" % i))
        elif x < 0.7:
            steps.append(("custom-control-call", i))
        elif x < 0.72:
            steps.append(("failing-send", i))
        elif x < 0.74 and role == "client":
            steps.append(("other-bind", "t%d" % i))
        elif x < 0.78 and role == "client":
            steps.append(("other-search", "f%d" % i))
        else:
            a = H.client_api_action(r) if role == "client" else H.server_api_action(r, shadow, retired)
            steps.append(a)
            before = set(shadow.model.ip)
            shadow.step(a)
            retired.extend(before - set(shadow.model.ip))
    for k in reg_at.values():
        steps.append(("register", k))
    return role, steps


def new_session(role):
    return sl.LDAPClient() if role == "client" else sl.LDAPServer()


def exec_step(role, sess, drv_call, a, held=None):
    """Execute one step on a bare session; return the transcript entry."""
    try:
        k = a[0]
        if k == "register":
            meth, cls = REG[a[1]]
            ret = getattr(sess, meth)(cls)
        elif k == "custom-search":
            ret = sess.search_request("dc=c", filter=CustomFilter(value=a[1]))
        elif k == "custom-bind":
            ret = sess.bind("cn=c", CustomAuth(username=a[1]))
        elif k == "failing-send":
            # raises while encoding (unencodable text): whatever it leaves behind must stay inside this session
            if role == "client":
                ret = sess.search_request("dc=x", attributes=["cn", "bad\udc80attr"]) if a[1] % 2 else sess.extended_request("1.2.\ud800")
            else:
                ret = sess.search_result_entry(1, "cn=\ud800", []) if a[1] % 2 else sess.extended_response(1, diagnostics_message="\udfff")
        elif k == "other-bind":
            ret = sess.bind("cn=o", OtherAuth(token=a[1].encode()))
        elif k == "other-search":
            ret = sess.search_request("dc=o", filter=OtherFilter(raw=a[1].encode()))
        elif k == "custom-control-call":
            if role == "client":
                ret = sess.extended_request("1.2.3", None, controls=[CustomControl(critical=True, size=a[1])])
            else:
                ret = sess.extended_response(1, controls=[CustomControl(critical=False, size=a[1])])
        elif k == "receive" and SHARED_BUFFER is not None:
            SHARED_BUFFER[:] = a[1]
            ret = sess.receive(SHARED_BUFFER)
        else:
            ret = drv_call(a)
        out = ("ret", repr(ret))
        if k == "receive" and isinstance(ret, list):
            if held is not None:
                held.extend(ret)
            out = out + (repr([deep(m) for m in ret]),)
    except Exception as e:
        out = ("exc", type(e).__name__, str(e))
    return out + (sess.state.name, sess.data_to_send().hex())


def deep(m):
    """Full public content of a returned message incl. fields excluded from repr (e.g. control .value)."""
    try:
        return (av.abstract(m), [(type(c).__name__, c.control_type, c.critical, c.value) for c in m.controls])
    except Exception as e:
        return ("unabstractable", type(e).__name__)


def make_runner(role):
    sess = new_session(role)
    d = Driver(role, "drain", session=sess)  # only its _call dispatcher is used
    return sess, d._call


def run_isolated(seq):
    global SHARED_BUFFER
    role, steps = seq
    sess, call = make_runner(role)
    held = []
    saved, SHARED_BUFFER = SHARED_BUFFER, None  # alone: plain bytes (the reference behaviour)
    try:
        tr = [exec_step(role, sess, call, a, held) for a in steps]
    finally:
        SHARED_BUFFER = saved
    tr.append(("held-at-end", repr([deep(m) for m in held])))
    return tr


def _unused_run_isolated(seq):
    role, steps = seq
    sess, call = make_runner(role)
    held = []
    tr = [exec_step(role, sess, call, a, held) for a in steps]
    tr.append(("held-at-end", repr([deep(m) for m in held])))
    return tr


def run_interleaved(seqs, schedule):
    """schedule: list of sequence indices, one per step overall."""
    runners = [make_runner(role) for role, _ in seqs]
    pos = [0] * len(seqs)
    tr = [[] for _ in seqs]
    held = [[] for _ in seqs]
    for si in schedule:
        role, steps = seqs[si]
        if pos[si] >= len(steps):
            continue
        sess, call = runners[si]
        tr[si].append(exec_step(role, sess, call, steps[pos[si]], held[si]))
        pos[si] += 1
    for si, (role, steps) in enumerate(seqs):
        sess, call = runners[si]
        while pos[si] < len(steps):
            tr[si].append(exec_step(role, sess, call, steps[pos[si]], held[si]))
            pos[si] += 1
    for si in range(len(seqs)):
        tr[si].append(("held-at-end", repr([deep(m) for m in held[si]])))
    return tr


def run_threads(seqs):
    tr = [None] * len(seqs)
    old = sys.getswitchinterval()
    sys.setswitchinterval(1e-6)
    barrier = threading.Barrier(len(seqs))

    helds = [[] for _ in seqs]
    done = threading.Barrier(len(seqs))

    def work(i):
        role, steps = seqs[i]
        sess, call = make_runner(role)
        barrier.wait()
        out = [exec_step(role, sess, call, a, helds[i]) for a in steps]
        done.wait(60)
        out.append(("held-at-end", repr([deep(m) for m in helds[i]])))
        tr[i] = out

    try:
        ths = [threading.Thread(target=work, args=(i,)) for i in range(len(seqs))]
        for th in ths:
            th.start()
        for th in ths:
            th.join(60)
    finally:
        sys.setswitchinterval(old)
    return tr


def alternations(schedule):
    return sum(1 for a, b in zip(schedule, schedule[1:]) if a != b)


def compare(seqs, iso, inter, label):
    for si in range(len(seqs)):
        if inter[si] is None:
            return [("harness:thread-timeout", label)]
        if iso[si] != inter[si]:
            k = next((j for j in range(min(len(iso[si]), len(inter[si]))) if iso[si][j] != inter[si][j]), -1)
            step = seqs[si][1][k][0] if 0 <= k < len(seqs[si][1]) else ("returned-message-mutated-later" if k == len(seqs[si][1]) else "?")
            return [(f"interleaving-changes-behaviour:{step}", f"{label}: session {si} ({seqs[si][0]}) call #{k} ({step}) alone -> {str(iso[si][k])[:160]} ; interleaved -> {str(inter[si][k])[:160]}")]
    return []


def direct_checks():
    """Registration semantics observed directly. Returns (violations, observations)."""
    vio, obs = [], {}
    reg, plain = sl.LDAPServer(), sl.LDAPServer()
    reg.register_control(CustomControl)
    reg.register_filter(CustomFilter)
    reg.register_auth_credential(CustomAuth)
    later = sl.LDAPServer()  # created after the registrations
    # control
    data = bytes_custom_control(5, "server")
    m = reg.receive(data)[0]
    if type(m.controls[0]) is not CustomControl or m.controls[0].size != 77:
        vio.append(("registered-control-not-decoded", f"registered session decoded {m.controls[0]!r}"))
    elif m.pack(reg._packing_options if hasattr(reg, "_packing_options") else sl._messages.PackingOptions()) != data:
        vio.append(("registered-control-reencode", "re-encoding the custom control differs"))
    else:
        obs["direct:registered-decodes-custom"] = 1
    for name, other in (("plain", plain), ("later", later)):
        m2 = other.receive(data)[0]
        c = m2.controls[0]
        if type(c) is not sl.LDAPControl or c.value != struct.pack("<I", 77) or c.control_type != CUSTOM_CONTROL_OID:
            vio.append((f"registration-leaked:control:{name}", f"session without the registration decoded {c!r}"))
        else:
            obs["direct:unregistered-generic-control"] = obs.get("direct:unregistered-generic-control", 0) + 1
    # filter / auth
    for kind, data2, cls, attr in (("filter", bytes_custom_filter(6), CustomFilter, "filter"), ("auth", bytes_custom_auth(7), CustomAuth, "authentication")):
        r2 = sl.LDAPServer()
        getattr(r2, REG[kind][0])(cls)
        got = r2.receive(data2)[0]
        if type(getattr(got, attr)) is not cls:
            vio.append((f"registered-{kind}-not-decoded", repr(got)))
        elif got.pack(sl._messages.PackingOptions()) != data2:
            vio.append((f"registered-{kind}-reencode", "re-encoding differs"))
        else:
            obs["direct:registered-decodes-custom"] = obs.get("direct:registered-decodes-custom", 0) + 1
        for other in (sl.LDAPServer(),):
            try:
                res = other.receive(data2)
                vio.append((f"registration-leaked:{kind}", f"session without the registration accepted the custom {kind}: {res!r}"))
            except sl.ProtocolError:
                obs[f"direct:unregistered-{kind}-protocolerror"] = 1
    # a deep copy of a session is another session: registrations made afterwards on either side stay on that side
    import copy as _copy

    for kind, data3, cls3 in (("filter", bytes_custom_filter(31), CustomFilter), ("auth", bytes_custom_auth(32), CustomAuth), ("control", bytes_custom_control(33, "server"), CustomControl)):
        orig = sl.LDAPServer()
        twin = _copy.deepcopy(orig)
        getattr(orig, REG[kind][0])(cls3)
        late = _copy.deepcopy(orig)  # copied after the registration: has it
        for name, sess3, expect_custom in (("copy-made-before", twin, False), ("original", orig, True), ("copy-made-after", late, True)):
            try:
                m4 = sess3.receive(data3)[0]
                decoded_custom = cls3.__name__ in repr(m4)
            except sl.ProtocolError:
                decoded_custom = False
            if decoded_custom != expect_custom:
                vio.append((f"deepcopy-shares-registrations:{kind}:{name}", f"{name} session {'decodes' if decoded_custom else 'does not decode'} the custom {kind}; expected {'custom' if expect_custom else 'unknown'}"))
            else:
                obs["direct:deepcopy-independence"] = obs.get("direct:deepcopy-independence", 0) + 1
        # and the other way round: a registration on the copy does not reach the original
        o2 = sl.LDAPServer()
        c2 = _copy.deepcopy(o2)
        getattr(c2, REG[kind][0])(cls3)
        for name, sess3, expect_custom in (("original-after-copy-registered", o2, False), ("registering-copy", c2, True)):
            try:
                m4 = sess3.receive(data3)[0]
                decoded_custom = cls3.__name__ in repr(m4)
            except sl.ProtocolError:
                decoded_custom = False
            if decoded_custom != expect_custom:
                vio.append((f"deepcopy-shares-registrations:{kind}:{name}", f"{name} {'decodes' if decoded_custom else 'does not decode'} the custom {kind}"))
    # a registration made after the session has already carried traffic (of the same sort, including the very bytes
    # that were an unknown type until then) takes effect from that point on, for every later registration too
    def _warm_server():
        w = sl.LDAPServer()
        U = ("1.2.3.4.5.6.7", False, b"u", None)
        P = ("1.2.840.113556.1.4.319", False, None, ("paged", 10, b"ck"))
        CG = (CUSTOM_CONTROL_OID, True, struct.pack("<I", 9), None)
        OG = ("1.2.3.4.98", False, b"t", None)
        w.receive(rfc4511.encode(("ExtendedRequest", 1, ("1.2.3", None), (U, P, CG, OG))))
        w.receive(rfc4511.encode(("SearchRequest", 2, ("dc=x", 2, 0, 0, 0, False, ("and", (("eq", "cn", b"x"), ("not", ("present", "sn")))), ()), (U,))))
        w.extended_response(1)
        w.search_result_done(2)
        w.receive(rfc4511.encode(("BindRequest", 3, (3, "cn=a", ("simple", "pw")), ())))
        w.bind_response(3)
        w.receive(rfc4511.encode(("BindRequest", 4, (3, "cn=a", ("sasl", "EXTERNAL", None)), ())))
        w.bind_response(4)
        w.data_to_send()
        return w

    late_cases = [("control", CustomControl, lambda i: bytes_custom_control(i, "server")), ("filter", CustomFilter, bytes_custom_filter), ("auth", CustomAuth, bytes_custom_auth),
                  ("control2", OtherControl, lambda i: bytes_other("control", i, "server")), ("filter2", OtherFilter, lambda i: bytes_other("filter", i, "server")),
                  ("auth2", OtherAuth, lambda i: bytes_other("auth", i, "server"))]
    for first in range(len(late_cases)):
        try:
            w = _warm_server()
            nid = 10
            order = late_cases[first:] + late_cases[:first]
            for kind, cls4, mk in order[:3]:
                getattr(w, REG[kind][0])(cls4)
                nid += 1
                try:
                    got = w.receive(mk(nid))[0]
                    ok = cls4.__name__ in repr(got)
                    what = repr(got)[:160]
                except sl.ProtocolError as e:
                    ok, what = False, f"ProtocolError: {e}"
                if not ok:
                    vio.append((f"late-registration-ignored:{kind.rstrip('2')}", f"{cls4.__name__} registered after the session had carried traffic, then received: {what}"))
                    break
                obs["direct:late-registration-decodes-custom"] = obs.get("direct:late-registration-decodes-custom", 0) + 1
                if w.state.name == "BINDING":
                    w.bind_response(nid)
                elif "Search" in type(got).__name__:
                    w.search_result_done(nid)
                else:
                    w.extended_response(nid)
                w.data_to_send()
        except Exception as e:  # the warm-up itself failing is the harness's problem or another property's
            vio.append((f"late-registration-harness:{type(e).__name__}", f"{e}"))
    # client side: a control type registered after responses with controls were received
    try:
        cl = sl.LDAPClient()
        sid = cl.search_request("dc=x")
        cl.data_to_send()
        cl.receive(rfc4511.encode(("SearchResultEntry", sid, ("cn=x", ()), (("1.2.3.4.5.6.7", False, b"u", None), (CUSTOM_CONTROL_OID, False, struct.pack("<I", 3), None)))))
        cl.register_control(CustomControl)
        got = cl.receive(bytes_custom_control(sid, "client"))[0]
        if type(got.controls[0]) is not CustomControl:
            vio.append(("late-registration-ignored:control:client", f"client registered CustomControl after receiving controls, then decoded {got.controls[0]!r}"))
        else:
            obs["direct:late-registration-decodes-custom"] = obs.get("direct:late-registration-decodes-custom", 0) + 1
    except sl.LDAPError as e:
        vio.append(("late-registration-ignored:control:client", f"{type(e).__name__}: {e}"))
    # custom types may use any id the built-ins leave free, also small ones next to the built-ins and ids that need the
    # high-tag-number form
    def _mk_auth(aid):
        @dataclasses.dataclass(frozen=True)
        class _A(sl.AuthenticationCredential):
            auth_id: int = dataclasses.field(init=False, repr=False, default=aid)
            blob: bytes = b""

            def pack(self, writer, options):
                writer.write_octet_string(self.blob, tag=A.ASN1Tag(A.TagClass.CONTEXT_SPECIFIC, aid, False))

            @classmethod
            def unpack(cls, reader, options):
                return cls(blob=reader.read_octet_string(tag=A.ASN1Tag(A.TagClass.CONTEXT_SPECIFIC, aid, False)))

        _A.__name__ = _A.__qualname__ = f"SmallIdAuth{aid}"
        return _A

    def _mk_filter(fid):
        @dataclasses.dataclass(frozen=True)
        class _F(sl.LDAPFilter):
            filter_id: int = dataclasses.field(init=False, repr=False, default=fid)
            blob: bytes = b""

            def pack(self, writer, options):
                writer.write_octet_string(self.blob, tag=A.ASN1Tag(A.TagClass.CONTEXT_SPECIFIC, fid, False))

            @classmethod
            def unpack(cls, reader, options):
                return cls(blob=reader.read_octet_string(A.ASN1Tag(A.TagClass.CONTEXT_SPECIFIC, fid, False)))

        _F.__name__ = _F.__qualname__ = f"SmallIdFilter{fid}"
        return _F

    for aid in (1, 2, 4, 5, 30, 31, 127, 128):
        cls5 = _mk_auth(aid)
        root = rfc4511.Enc().message(("BindRequest", 3, (3, "cn=a", ("simple", "x")), ()))
        root.children[1].children[2] = ber.Node(ber.CTX, False, aid, content=b"small-id")
        data5 = ber.ser(root)
        try:
            s5 = sl.LDAPServer()
            s5.register_auth_credential(cls5)
            got5 = s5.receive(data5)[0]
            if type(got5.authentication) is not cls5 or got5.authentication.blob != b"small-id":
                vio.append(("registered-auth-not-decoded:free-id", f"credential type registered with id {aid} decoded as {got5.authentication!r}"))
            elif got5.pack(sl._messages.PackingOptions()) != data5:
                vio.append(("registered-auth-reencode:free-id", f"id {aid}: re-encoding differs"))
            else:
                obs["direct:free-id-registrations"] = obs.get("direct:free-id-registrations", 0) + 1
        except (sl.LDAPError, ValueError) as e:
            vio.append(("registered-auth-not-decoded:free-id", f"credential type registered with the free id {aid}: {type(e).__name__}: {e}"))
        try:
            sl.LDAPServer().receive(data5)
            vio.append(("registration-leaked:auth:free-id", f"unregistered session accepted credential id {aid}"))
        except sl.ProtocolError:
            pass
    for fid in (10, 11, 30, 31, 127, 128):
        cls6 = _mk_filter(fid)
        root = rfc4511.Enc().message(("SearchRequest", 4, ("dc=x", 2, 0, 0, 0, False, ("present", "cn"), ()), ()))
        root.children[1].children[6] = ber.Node(ber.CTX, False, fid, content=b"small-id")
        data6 = ber.ser(root)
        try:
            s6 = sl.LDAPServer()
            s6.register_filter(cls6)
            got6 = s6.receive(data6)[0]
            if type(got6.filter) is not cls6 or got6.filter.blob != b"small-id":
                vio.append(("registered-filter-not-decoded:free-id", f"filter type registered with id {fid} decoded as {got6.filter!r}"))
            else:
                obs["direct:free-id-registrations"] = obs.get("direct:free-id-registrations", 0) + 1
        except (sl.LDAPError, ValueError) as e:
            vio.append(("registered-filter-not-decoded:free-id", f"filter type registered with the free id {fid}: {type(e).__name__}: {e}"))
        try:
            sl.LDAPServer().receive(data6)
            vio.append(("registration-leaked:filter:free-id", f"unregistered session accepted filter id {fid}"))
        except sl.ProtocolError:
            pass
    # what one session went through (a refused, deeply nested request received with little stack headroom) says nothing
    # about what a fresh session accepts afterwards
    from vf.common import call_with_headroom
    from vf.gen import corrupt as _C

    deep_req = _C.nested_filter_search(120, "not")
    try:
        before = [type(m).__name__ for m in sl.LDAPServer().receive(deep_req)]
    except sl.ProtocolError:
        before = "ProtocolError"
    for hd, hh in ((90, 70), (60, 100), (150, 120)):
        victim = sl.LDAPServer()
        try:
            call_with_headroom(hh, lambda: victim.receive(_C.nested_filter_search(hd, "not")))
        except sl.ProtocolError:
            obs["direct:low-headroom-session-refused"] = obs.get("direct:low-headroom-session-refused", 0) + 1
        except RecursionError:
            pass  # C05's subject
    try:
        after = [type(m).__name__ for m in sl.LDAPServer().receive(deep_req)]
    except sl.ProtocolError:
        after = "ProtocolError"
    if after != before:
        vio.append(("other-sessions-failure-changes-fresh-session", f"a fresh server given a 120-level nested search returned {before} before, {after} after another session had failed on nested input with little stack headroom"))
    else:
        obs["direct:fresh-session-after-foreign-failure"] = 1
    # one caller-owned memoryview handed to two sessions in turn (the first one keeps a partial message from it)
    try:
        whole = rfc4511.encode(("ExtendedRequest", 7, ("1.2.3", b"shared-view"), ()))
        part = bytearray(whole[: len(whole) - 4])
        view = memoryview(part)
        s_a, s_b = sl.LDAPServer(), sl.LDAPServer()
        r_a = s_a.receive(view)
        r_b = s_b.receive(view)
        r_a2 = s_a.receive(whole[len(whole) - 4:])
        r_b2 = s_b.receive(whole[len(whole) - 4:])
        if r_a or r_b or len(r_a2) != 1 or len(r_b2) != 1 or repr(r_a2) != repr(r_b2):
            vio.append(("shared-caller-view-couples-sessions", f"two sessions fed from one memoryview: {r_a!r} {r_b!r} {r_a2!r} {r_b2!r}"))
        else:
            obs["direct:one-memoryview-two-sessions"] = 1
    except (sl.LDAPError, ValueError) as e:
        vio.append(("shared-caller-view-couples-sessions", f"the second session given the caller's memoryview failed: {type(e).__name__}: {e}"))
    # what other sessions of the process have decoded before (thousands of distinct unknown result codes; many dropped
    # sessions that died holding a partial message) changes nothing for a fresh session
    try:
        probe_codes = []
        for code in range(3000, 3000 + (2600 if ORDER_FLIP == 0 else 1100)):
            c9 = sl.LDAPClient()
            i9 = c9.extended_request("1.2.3")
            c9.data_to_send()
            got9 = c9.receive(rfc4511.encode(("ExtendedResponse", i9, ((code, "", "", None), None, None), ())))[0]
            if got9.result.result_code.value != code:
                probe_codes.append((code, got9.result.result_code.value))
                break
        fresh = sl.LDAPClient()
        i10 = fresh.extended_request("1.2.3")
        fresh.data_to_send()
        got10 = fresh.receive(rfc4511.encode(("ExtendedResponse", i10, ((987654, "", "", None), None, None), ())))[0]
        if probe_codes or got10.result.result_code.value != 987654:
            vio.append(("unknown-result-codes-seen-elsewhere-change-decoding", f"after other sessions decoded thousands of distinct unknown result codes: {probe_codes or [(987654, got10.result.result_code.value)]}"))
        else:
            obs["direct:fresh-session-after-many-unknown-codes"] = 1
    except sl.LDAPError as e:
        vio.append(("unknown-result-codes-seen-elsewhere-change-decoding", f"{type(e).__name__}: {e}"))
    if ORDER_FLIP == 0:
        try:
            big = rfc4511.encode(("SearchResultEntry", 1, ("cn=big", (("jpegPhoto", (b"\x00" * (2 * 1024 * 1024),)),)), ()))
            for _k in range(48):  # sessions that die holding ~2 MiB of an incomplete message each
                dead = sl.LDAPClient()
                dead.search_request("dc=x")
                dead.data_to_send()
                if dead.receive(big[:-10]):
                    raise AssertionError("partial message returned")
                del dead
            alive = sl.LDAPClient()
            alive.search_request("dc=x")
            alive.data_to_send()
            big8 = rfc4511.encode(("SearchResultEntry", 1, ("cn=big", (("jpegPhoto", (b"\x01" * (8 * 1024 * 1024),)),)), ()))
            r1 = alive.receive(big8[: len(big8) // 2])
            r2 = alive.receive(big8[len(big8) // 2:])
            if r1 or len(r2) != 1:
                vio.append(("dropped-sessions-limit-fresh-session", f"after 48 dropped sessions with ~2 MiB pending each, a fresh session returned {len(r1)}+{len(r2)} messages for an 8 MiB entry in two halves"))
            else:
                obs["direct:fresh-session-after-dropped-sessions"] = 1
        except sl.LDAPError as e:
            vio.append(("dropped-sessions-limit-fresh-session", f"after 48 dropped sessions with ~2 MiB pending each, a fresh session failed on an 8 MiB entry: {type(e).__name__}: {str(e)[:120]}"))
    # an application class derived from a library-known control type is like any other custom type: unknown to sessions
    # that did not register it, registrable once by those that do
    try:
        sub_bytes = rfc4511.encode(("ExtendedRequest", 9, ("1.2.3", None), (("1.2.3.4.96", True, None, None),)))
        plain9 = sl.LDAPServer().receive(sub_bytes)[0].controls[0]
        if type(plain9) is not sl.LDAPControl:
            vio.append(("registration-leaked:control:subclass-of-known-type", f"a session that registered nothing decoded the application's subclass of a known control as {type(plain9).__name__}"))
        reg9 = sl.LDAPServer()
        reg9.register_control(SubclassOfKnownControl)
        got9c = reg9.receive(sub_bytes)[0].controls[0]
        if type(got9c) is not SubclassOfKnownControl:
            vio.append(("registered-control-not-decoded:subclass-of-known-type", f"decoded as {type(got9c).__name__}"))
        else:
            obs["direct:subclass-of-known-control"] = 1
    except ValueError as e:
        vio.append(("registration-leaked:control:subclass-of-known-type", f"first registration of a subclass of a known control on a fresh session refused: {e}"))
    except sl.LDAPError as e:
        vio.append(("registered-control-not-decoded:subclass-of-known-type", f"{type(e).__name__}: {e}"))
    # control types are opaque strings: OIDs with a zero arc, arcs above 2^32, a descriptor-like name
    for oid_ in ("1.2.826.0.1.3344810.2.3", "2.16.840.1.113730.3.4.0", "0.9.2342.19200300", "1.3.6.1.4.1.4294967297.1", "myControl"):
        try:
            @dataclasses.dataclass(frozen=True)
            class _C(sl.LDAPControl):
                control_type: str = dataclasses.field(init=False, repr=False, default=oid_)
                value: t.Optional[bytes] = dataclasses.field(init=False, repr=False, default=None)
                blob: bytes = b""

                def get_value(self, options):
                    return self.blob

                @classmethod
                def unpack(cls, control_type, critical, value, options):
                    return cls(critical=critical, blob=value or b"")

            sx = sl.LDAPServer()
            sx.register_control(_C)
            got_ = sx.receive(rfc4511.encode(("ExtendedRequest", 3, ("1.2.3", None), ((oid_, True, b"zero-arc", None),))))[0]
            if type(got_.controls[0]) is not _C or got_.controls[0].blob != b"zero-arc":
                vio.append(("registered-control-not-decoded:type-string", f"control type {oid_!r} registered, decoded as {got_.controls[0]!r}"))
            else:
                obs["direct:control-type-strings"] = obs.get("direct:control-type-strings", 0) + 1
        except (sl.LDAPError, ValueError) as e:
            vio.append(("registered-control-not-decoded:type-string", f"control type {oid_!r}: {type(e).__name__}: {e}"))
    # several custom filter types on one session, registered in descending, ascending and mixed order of their numbers
    for ids in ((50, 20, 35), (20, 35, 50), (35, 50, 20), (1030, 12, 31)):
        try:
            sx = sl.LDAPServer()
            classes = {i_: _mk_filter(i_) for i_ in ids}
            for i_ in ids:
                sx.register_filter(classes[i_])
            for n_, i_ in enumerate(sorted(ids)):
                root = rfc4511.Enc().message(("SearchRequest", 60 + n_, ("dc=x", 2, 0, 0, 0, False, ("present", "cn"), ()), ()))
                root.children[1].children[6] = ber.Node(ber.CTX, False, i_, content=b"order")
                got_ = sx.receive(ber.ser(root))[0]
                if type(got_.filter) is not classes[i_]:
                    vio.append(("registered-filter-not-decoded:registration-order", f"filters registered in the order {ids}: number {i_} decoded as {type(got_.filter).__name__}"))
                    break
                sx.search_result_done(60 + n_)
                sx.data_to_send()
            else:
                obs["direct:registration-order"] = obs.get("direct:registration-order", 0) + 1
        except (sl.LDAPError, ValueError) as e:
            vio.append(("registered-filter-not-decoded:registration-order", f"filters registered in the order {ids}: {type(e).__name__}: {e}"))
    # an application filter derived from a built-in one goes on the wire under its own number
    try:
        cl_ = sl.LDAPClient()
        cl_.register_filter(SubEqualityFilter)
        sid_ = cl_.search_request("dc=x", filter=sl.FilterAnd([SubEqualityFilter("cn", b"v"), sl.FilterEquality("sn", b"w")]))
        wire_ = cl_.data_to_send()
        andn = ber.parse(wire_).children[1].children[6]
        tags_ = [(c_.cls, c_.num) for c_ in andn.children]
        sv_ = sl.LDAPServer()
        sv_.register_filter(SubEqualityFilter)
        got_ = sv_.receive(wire_)[0]
        if tags_ != [(ber.CTX, 1026), (ber.CTX, 3)] or type(got_.filter.filters[0]) is not SubEqualityFilter or type(got_.filter.filters[1]) is not sl.FilterEquality:
            vio.append(("custom-filter-derived-from-builtin", f"wire tags {tags_}; the registered server decoded {got_.filter!r}"))
        else:
            obs["direct:custom-filter-derived-from-builtin"] = 1
    except (sl.LDAPError, ValueError) as e:
        vio.append(("custom-filter-derived-from-builtin", f"{type(e).__name__}: {e}"))
    # two sessions, two different application types under the same number / OID: each decodes with its own class,
    # whichever decoded first
    for kind, cls_a, cls_b, mk in (("filter", CustomFilter, AltFilter, bytes_custom_filter), ("auth", CustomAuth, AltAuth, bytes_custom_auth),
                                   ("control", CustomControl, AltControl, lambda i: bytes_custom_control(i, "server"))):
        try:
            sa, sb = sl.LDAPServer(), sl.LDAPServer()
            getattr(sa, REG[kind][0])(cls_a)
            getattr(sb, REG[kind][0])(cls_b)
            order_ = [(sa, cls_a), (sb, cls_b)] if ORDER_FLIP % 2 == 0 else [(sb, cls_b), (sa, cls_a)]
            ok = True
            for rnd in range(2):
                for sx, cx in order_:
                    mid_ = 40 + rnd * 2 + (0 if sx is sa else 1)
                    got_ = sx.receive(mk(mid_))[0]
                    if cx.__name__ not in repr(got_):
                        vio.append((f"same-id-different-class-in-two-sessions:{kind}", f"the session that registered {cx.__name__} decoded {repr(got_)[:160]}"))
                        ok = False
                        break
                    if sx.state.name == "BINDING":
                        sx.bind_response(mid_)
                    elif kind == "filter":
                        sx.search_result_done(mid_)
                    else:
                        sx.extended_response(mid_)
                    sx.data_to_send()
                if not ok:
                    break
            if ok:
                obs["direct:same-id-different-class"] = obs.get("direct:same-id-different-class", 0) + 1
        except (sl.LDAPError, ValueError) as e:
            vio.append((f"same-id-different-class-in-two-sessions:{kind}", f"{type(e).__name__}: {e}"))
    # an error raised for one session is that session's: what it carries does not change when another session fails later
    try:
        srv_x, cli_x = sl.LDAPServer(), sl.LDAPClient()
        errs = []
        for sx in (srv_x, cli_x):
            try:
                sx.receive(b"\x04\x00")
            except sl.ProtocolError as e:
                errs.append(e)
        again = []
        for sx in (srv_x, cli_x, srv_x):
            try:
                sx.receive(b"\x30\x00")
            except sl.ProtocolError as e:
                again.append((e, None if e.response is None else bytes(e.response), str(e)))
        snap = [(None if e.response is None else bytes(e.response)) for e in errs]
        srv_later = sl.LDAPServer()
        try:
            srv_later.receive(b"\xff\xff\xff\xff\xff\xff")
        except sl.ProtocolError:
            pass
        now = [(None if e.response is None else bytes(e.response)) for e in errs]
        now_again = [(None if e.response is None else bytes(e.response), str(e)) for e, _, _ in again]
        if now != snap or now_again != [(r_, t_) for _, r_, t_ in again]:
            vio.append(("error-object-shared-between-sessions", "the response bytes / text carried by a ProtocolError changed after another session raised its own error"))
        elif again[0][1] is not None and again[1][1] is not None and again[0][1] == again[1][1]:
            vio.append(("error-object-shared-between-sessions", "a closed server and a closed client report the same response bytes"))
        else:
            obs["direct:errors-are-per-session"] = 1
    except Exception as e:
        vio.append((f"error-object-check:{type(e).__name__}", str(e)))
    # the custom filter nested under and / or / not
    regf = sl.LDAPServer()
    regf.register_filter(CustomFilter)
    for shape in range(6):
        d2 = bytes_nested_custom_filter(200 + shape, shape)
        try:
            m3 = regf.receive(d2)[0]
            if "CustomFilter" not in repr(m3.filter) or m3.pack(sl._messages.PackingOptions(filter=regf._packing_options.filter) if hasattr(regf, "_packing_options") else sl._messages.PackingOptions()) != d2:
                vio.append(("registered-filter-not-decoded:nested", f"shape {shape}: {m3.filter!r}"))
            else:
                obs["direct:nested-custom-filter"] = obs.get("direct:nested-custom-filter", 0) + 1
        except sl.ProtocolError as e:
            vio.append(("registered-filter-not-decoded:nested", f"registered session rejected the custom filter nested in shape {shape}: {e}"))
            regf = sl.LDAPServer()
            regf.register_filter(CustomFilter)
        try:
            sl.LDAPServer().receive(d2)
            vio.append(("registration-leaked:filter:nested", f"unregistered session accepted the nested custom filter (shape {shape})"))
        except sl.ProtocolError:
            pass
    # several controls in one message, in orders that differ from the session's list of known types
    both = sl.LDAPServer()
    both.register_control(CustomControl)
    both.register_control(OtherControl)
    expect_types = {CUSTOM_CONTROL_OID: CustomControl, "1.2.3.4.98": OtherControl, "1.2.840.113556.1.4.319": sl.PagedResultControl,
                    "1.2.840.113556.1.4.417": sl.ShowDeletedControl, "1.2.3.4.5.6.7": sl.LDAPControl}
    for which in range(7):
        data = bytes_two_controls(100 + which, "server", which)
        got = both.receive(data)[0]
        for c in got.controls:
            if type(c) is not expect_types[c.control_type]:
                vio.append((f"registered-type-not-decoded:position-dependent", f"message with controls {[x.control_type for x in got.controls]}: {c.control_type} decoded as {type(c).__name__}"))
                break
        else:
            obs["direct:multi-control-messages"] = obs.get("direct:multi-control-messages", 0) + 1
        plain2 = sl.LDAPServer().receive(data)[0]
        for c in plain2.controls:
            exp_t = expect_types[c.control_type] if c.control_type.startswith("1.2.840") else sl.LDAPControl
            if type(c) is not exp_t:
                vio.append((f"unregistered-session-decodes:position-dependent", f"unregistered session, controls {[x.control_type for x in plain2.controls]}: {c.control_type} decoded as {type(c).__name__}"))
                break
    # two custom types sharing class and number but not the constructed bit, packed by different sessions of one process
    order = [("filter", "auth"), ("auth", "filter")][ORDER_FLIP % 2]
    for kind in order:
        c3 = sl.LDAPClient()
        if kind == "filter":
            c3.search_request("dc=o", filter=OtherFilter(raw=b"other-filter"))
            exp = bytes_other("filter", 1, "server")
            exp = exp.replace(b"dc=x", b"dc=o")
        else:
            c3.bind("cn=a", OtherAuth(token=b"other-token"))
            exp = bytes_other("auth", 1, "server")
        got_b = c3.data_to_send()
        try:
            same_shape = ber.parse(got_b).children[1].children[-1 if kind == "auth" else 6].tag() == ber.parse(exp).children[1].children[-1 if kind == "auth" else 6].tag()
        except Exception:
            same_shape = False
        if not same_shape:
            vio.append((f"custom-type-encoding-depends-on-other-session:{kind}", f"custom {kind} [1025] packed after the other session's [1025] type: {got_b.hex()[:80]}"))
        else:
            obs["direct:same-number-different-form"] = obs.get("direct:same-number-different-form", 0) + 1
    # duplicates
    for kind in ("control", "filter", "auth"):
        s3 = sl.LDAPClient()
        meth, cls = REG[kind]
        getattr(s3, meth)(cls)
        try:
            getattr(s3, meth)(cls)
            vio.append((f"duplicate-registration-accepted:{kind}", "second registration of the same id accepted"))
        except ValueError:
            obs["direct:duplicate-refused"] = obs.get("direct:duplicate-refused", 0) + 1
        meth2, cls2 = REG["clash-" + kind]
        try:
            getattr(sl.LDAPClient(), meth2)(cls2)
            vio.append((f"builtin-clash-accepted:{kind}", "registration re-using a built-in id accepted"))
        except ValueError:
            obs["direct:builtin-clash-refused"] = obs.get("direct:builtin-clash-refused", 0) + 1
        # a fresh session can still register (the earlier registration was per session)
        try:
            getattr(sl.LDAPClient(), meth)(cls)
        except ValueError:
            vio.append((f"registration-leaked:{kind}:fresh-session-refuses", "fresh session refused a first registration"))
    return vio, obs


def run_case(seed_parts, nseq, thorough, threads=False):
    from vf.common import rng_for

    r = rng_for("c19", *seed_parts)
    subsets = [r.randrange(8) for _ in range(nseq)]
    seqs = [g_sequence(r, sub) for sub in subsets]
    global SHARED_BUFFER
    SHARED_BUFFER = bytearray() if (r.random() < 0.5 and not threads) else None
    iso = [run_isolated(s) for s in seqs]
    # determinism of a sequence run alone twice (precondition for the comparison)
    if [run_isolated(s) for s in seqs] != iso:
        return [("nondeterministic-alone", "running the same sequence alone twice gives different transcripts")], {}, seqs, subsets
    total = sum(len(s[1]) for s in seqs)
    obs = {}
    vio = []
    scheds = []
    order = list(range(nseq))
    scheds.append(("sequential", [i for i in order for _ in seqs[i][1]]))
    scheds.append(("sequential", [i for i in reversed(order) for _ in seqs[i][1]]))
    scheds.append(("alternation", [k % nseq for k in range(total * nseq)]))
    for _ in range(40 if thorough else 20):
        scheds.append(("random", [r.randrange(nseq) for _ in range(total + 5)]))
    interesting = any(a[0] in ("register", "receive") for _, st in seqs for a in st)
    nts = []
    for label, sch in scheds:
        obs["schedule:" + label] = obs.get("schedule:" + label, 0) + 1
        alt = alternations(sch)
        if alt >= 10:
            obs["alternations>=10"] = obs.get("alternations>=10", 0) + 1
        if alt >= 3 and interesting:
            nts.append(tuple(sch))
        vio += compare(seqs, iso, run_interleaved(seqs, sch), label)
        if vio:
            break
    if threads and not vio:
        obs["schedule:threads"] = 1
        for _ in range(3):
            vio += compare(seqs, iso, run_threads(seqs), "threads")
    for sub in subsets:
        obs[f"registration-subset:{sub}"] = 1
    if any(a[0] == "register" for _, st in seqs for a in st):
        obs["registration-in-sequence"] = 1
    if any(a[0] in ("custom-search", "custom-bind", "custom-control-call") or (a[0] == "receive" and b"\x9f\x88\x00" in a[1]) for _, st in seqs for a in st):
        obs["custom-bytes-in-sequence"] = 1
    obs["_nts"] = nts
    if SHARED_BUFFER is not None:
        obs["caller-buffer-shared-between-sessions"] = 1
    SHARED_BUFFER = None
    return vio, obs, seqs, subsets


def safe_direct_checks():
    try:
        return direct_checks()
    except Exception as e:  # the library misbehaving inside a direct check is an observation, not a harness failure
        import traceback

        tb = traceback.extract_tb(e.__traceback__)
        where = next((f"{fr.name}:{fr.lineno}" for fr in tb if fr.filename.endswith("c19.py") and fr.name == "direct_checks"), "?")
        return [(f"direct-check-exception:{type(e).__name__}", f"registration-scope check at {where} raised {type(e).__name__}: {e}")], {}


def isolated_in_fresh_process(seq):
    """The same sequence alone in a brand-new interpreter: the reference that no earlier activity of this process can
    have influenced (module-level caches, memo tables)."""
    import json as _json
    import subprocess as _sp

    from vf.common import PYTHON, REPO_SRC, VERIF, DEPS, jsonable

    env = dict(os.environ, PYTHONPATH=os.pathsep.join([REPO_SRC, VERIF, DEPS]), PYTHONHASHSEED="0", PYTHONDONTWRITEBYTECODE="1")
    p = _sp.run([PYTHON, "-m", "vf.props.c19"], input=_json.dumps(jsonable(seq)), capture_output=True, text=True, env=env, timeout=120, cwd=VERIF)
    if p.returncode != 0:
        return None
    return [tuple(x) for x in _json.loads(p.stdout.strip().splitlines()[-1])]


def run_shard(ctx: Ctx, acc: Acc):
    global ORDER_FLIP
    ORDER_FLIP = ctx.shard
    vio, obs = safe_direct_checks()
    acc.case()
    for k, v in obs.items():
        acc.count(k, v)
    for key, what in vio:
        acc.violation(key, what, {"direct": True})
    n = ctx.scale(1600, 40_000)
    for i in range(n):
        parts = (ctx.seed, ctx.shard, i)
        nseq = 2 if i % 3 else 3
        threads = ctx.thorough and i % 10 == 0
        vio, obs, seqs, subsets = run_case(parts, nseq, ctx.thorough, threads)
        nts = obs.pop("_nts", [])
        acc.case(sum(v for k, v in obs.items() if k.startswith("schedule:")))
        for k, v in obs.items():
            acc.count(k, v)
        for sch in nts:
            acc.nontrivial(parts, sch)
        if i % 40 == 7 and not vio:
            # after everything this process has done so far, "alone" must still mean the same as in a fresh interpreter
            for si, sq in enumerate(seqs):
                fresh = isolated_in_fresh_process(sq)
                if fresh is None:
                    acc.notes.append("fresh-process reference run failed")
                    continue
                acc.count("fresh-process-reference-runs")
                here = [tuple(x) for x in json.loads(json.dumps(jsonable(run_isolated(sq))))]
                if fresh != here:
                    k = next((j for j in range(min(len(fresh), len(here))) if fresh[j] != here[j]), -1)
                    step = sq[1][k][0] if 0 <= k < len(sq[1]) else "?"
                    vio.append((f"process-global-state:{step}", f"sequence alone in this (used) process differs from the same sequence in a fresh interpreter at call #{k} ({step}): {str(here[k])[:140]} vs {str(fresh[k])[:140]}"))
                    break
        if i < 2:
            acc.sample({"sequences": [(role, [(a[0], a[1] if a[0] == "register" else None) for a in st]) for role, st in seqs], "subsets": subsets})
        for key, what in vio:
            acc.violation(key, what, {"seed_parts": list(parts), "nseq": nseq, "threads": threads})


def replay(w):
    if w.get("direct"):
        return safe_direct_checks()[0]
    vio, obs, seqs, subsets = run_case(tuple(w["seed_parts"]), w["nseq"], True, w.get("threads", False))
    return vio


if __name__ == "__main__":
    # child mode: read one sequence (JSON) from stdin, run it alone in this fresh interpreter, print the transcript
    import sys as _sys

    from vf.common import unjson as _unjson

    _seq = _unjson(json.loads(_sys.stdin.read()))
    _role, _steps = _seq[0], [to_tuple(a) if a[0] != "receive" else ("receive", bytes(a[1])) for a in _seq[1]]
    print(json.dumps(jsonable(run_isolated((_role, _steps)))))
