"""C19 - sessions are isolated; custom types take effect per session only (isolated vs interleaved transcripts)."""
from __future__ import annotations

import dataclasses
import struct
import sys
import threading
import typing as t

from vf import absval as av
from vf.common import Acc, Ctx, to_tuple
from vf.gen import histories as H
from vf.gen import values as gv
from vf.mon.driver import Driver
from vf.ref import ber, rfc4511

sl = av.sl
A = sl.asn1
LEVEL = "exploration"
RULE = (
    "2-3 single-session call sequences (client or server; API calls, crafted receives incl. bytes carrying custom control / filter / "
    "credential types, registrations of harness-defined custom types on a random subset of sessions, duplicate registrations) are run "
    "alone and then on fresh instances interleaved under >= 20 random schedules + both sequential orders + strict alternation (thorough: "
    "one thread per session with a 1 us switch interval); per-call transcript = (repr of the return value | exception class and text, state, "
    "drained bytes) must be identical; plus direct checks: registered session decodes to the custom class and re-encodes identically, "
    "unregistered session yields a generic control / ProtocolError, duplicate registration raises ValueError; non-trivial = interleaving "
    "with >= 3 alternations involving a registration or a receive; distinct by hash of (sequences, schedule)"
)
ASSUMPTIONS = ["sessions are never shared between threads; only module-level state could couple them"]

CUSTOM_CONTROL_OID = "1.2.3.4.99"


@dataclasses.dataclass(frozen=True)
class CustomControl(sl.LDAPControl):
    control_type: str = dataclasses.field(init=False, repr=False, default=CUSTOM_CONTROL_OID)
    value: t.Optional[bytes] = dataclasses.field(init=False, repr=False, default=None)
    size: int = 0

    def get_value(self, options):
        return struct.pack("<I", self.size)

    @classmethod
    def unpack(cls, control_type, critical, value, options):
        return CustomControl(critical=critical, size=struct.unpack("<I", (value or b"\x00\x00\x00\x00")[:4].ljust(4, b"\x00"))[0])


@dataclasses.dataclass(frozen=True)
class CustomFilter(sl.LDAPFilter):
    filter_id: int = dataclasses.field(init=False, repr=False, default=1024)
    value: str = ""

    def pack(self, writer, options):
        writer.write_octet_string(self.value.encode(options.string_encoding), tag=A.ASN1Tag(A.TagClass.CONTEXT_SPECIFIC, self.filter_id, False))

    @classmethod
    def unpack(cls, reader, options):
        v = reader.read_octet_string(A.ASN1Tag(A.TagClass.CONTEXT_SPECIFIC, cls.filter_id, False)).decode("utf-8")
        return CustomFilter(value=v)


@dataclasses.dataclass(frozen=True)
class CustomAuth(sl.AuthenticationCredential):
    auth_id: int = dataclasses.field(init=False, repr=False, default=1024)
    username: str = ""

    def pack(self, writer, options):
        writer.write_octet_string(self.username.encode(options.string_encoding), tag=A.ASN1Tag(A.TagClass.CONTEXT_SPECIFIC, self.auth_id, False))

    @classmethod
    def unpack(cls, reader, options):
        v = reader.read_octet_string(tag=A.ASN1Tag(A.TagClass.CONTEXT_SPECIFIC, cls.auth_id, False)).decode("utf-8")
        return CustomAuth(username=v)


@dataclasses.dataclass(frozen=True)
class OtherControl(sl.LDAPControl):
    control_type: str = dataclasses.field(init=False, repr=False, default="1.2.3.4.98")
    value: t.Optional[bytes] = dataclasses.field(init=False, repr=False, default=None)
    tag: bytes = b""

    def get_value(self, options):
        return self.tag

    @classmethod
    def unpack(cls, control_type, critical, value, options):
        return OtherControl(critical=critical, tag=value or b"")


@dataclasses.dataclass(frozen=True)
class OtherFilter(sl.LDAPFilter):
    filter_id: int = dataclasses.field(init=False, repr=False, default=1025)
    raw: bytes = b""

    def pack(self, writer, options):
        writer.write_octet_string(self.raw, tag=A.ASN1Tag(A.TagClass.CONTEXT_SPECIFIC, self.filter_id, False))

    @classmethod
    def unpack(cls, reader, options):
        return OtherFilter(raw=reader.read_octet_string(A.ASN1Tag(A.TagClass.CONTEXT_SPECIFIC, cls.filter_id, False)))


@dataclasses.dataclass(frozen=True)
class OtherAuth(sl.AuthenticationCredential):
    auth_id: int = dataclasses.field(init=False, repr=False, default=1025)
    token: bytes = b""

    def pack(self, writer, options):
        writer.write_octet_string(self.token, tag=A.ASN1Tag(A.TagClass.CONTEXT_SPECIFIC, self.auth_id, False))

    @classmethod
    def unpack(cls, reader, options):
        return OtherAuth(token=reader.read_octet_string(tag=A.ASN1Tag(A.TagClass.CONTEXT_SPECIFIC, cls.auth_id, False)))


@dataclasses.dataclass(frozen=True)
class ClashControl(sl.LDAPControl):  # same OID as a built-in: registration must be refused
    control_type: str = dataclasses.field(init=False, repr=False, default="1.2.840.113556.1.4.319")


@dataclasses.dataclass(frozen=True)
class ClashFilter(sl.LDAPFilter):
    filter_id: int = dataclasses.field(init=False, repr=False, default=3)


@dataclasses.dataclass(frozen=True)
class ClashAuth(sl.AuthenticationCredential):
    auth_id: int = dataclasses.field(init=False, repr=False, default=0)


REG = {"control2": ("register_control", OtherControl), "filter2": ("register_filter", OtherFilter), "auth2": ("register_auth_credential", OtherAuth),
       "control": ("register_control", CustomControl), "filter": ("register_filter", CustomFilter), "auth": ("register_auth_credential", CustomAuth),
       "clash-control": ("register_control", ClashControl), "clash-filter": ("register_filter", ClashFilter), "clash-auth": ("register_auth_credential", ClashAuth)}


def shards(tier):
    return 16


def gates(c, tier):
    out = []
    for k in ("schedule:random", "schedule:sequential", "schedule:alternation", "alternations>=10", "direct:registered-decodes-custom",
              "direct:unregistered-generic-control", "direct:unregistered-filter-protocolerror", "direct:unregistered-auth-protocolerror",
              "direct:duplicate-refused", "direct:builtin-clash-refused", "custom-bytes-in-sequence", "registration-in-sequence"):
        if c.get(k, 0) == 0:
            out.append(f"never observed {k}")
    for sub in range(8):
        if c.get(f"registration-subset:{sub}", 0) == 0:
            out.append(f"registration subset {sub:03b} never used")
    if tier == "thorough" and c.get("schedule:threads", 0) == 0:
        out.append("threaded schedule did not run")
    return out


# ------------------------------------------------------------------ custom-typed bytes (harness-encoded)

def bytes_custom_control(mid, role):
    ctl = (CUSTOM_CONTROL_OID, True, struct.pack("<I", 77), None)
    if role == "server":
        return rfc4511.encode(("ExtendedRequest", mid, ("1.2.3", None), (ctl,)))
    return rfc4511.encode(("SearchResultEntry", mid, ("cn=x", ()), (ctl,)))


def bytes_custom_filter(mid):
    root = rfc4511.Enc().message(("SearchRequest", mid, ("dc=x", 2, 0, 0, 0, False, ("present", "cn"), ()), ()))
    root.children[1].children[6] = ber.Node(ber.CTX, False, 1024, content=b"custom-filter-value")
    return ber.ser(root)


def bytes_custom_auth(mid):
    root = rfc4511.Enc().message(("BindRequest", mid, (3, "cn=a", ("simple", "x")), ()))
    root.children[1].children[2] = ber.Node(ber.CTX, False, 1024, content=b"custom-user")
    return ber.ser(root)


def bytes_other(kind, mid, role):
    if kind == "control":
        ctl = ("1.2.3.4.98", False, b"tag", None)
        return rfc4511.encode(("ExtendedRequest", mid, ("1.2.3", None), (ctl,)) if role == "server" else ("SearchResultEntry", mid, ("cn=x", ()), (ctl,)))
    if kind == "filter":
        root = rfc4511.Enc().message(("SearchRequest", mid, ("dc=x", 2, 0, 0, 0, False, ("present", "cn"), ()), ()))
        root.children[1].children[6] = ber.Node(ber.CTX, False, 1025, content=b"other-filter")
        return ber.ser(root)
    root = rfc4511.Enc().message(("BindRequest", mid, (3, "cn=a", ("simple", "x")), ()))
    root.children[1].children[2] = ber.Node(ber.CTX, False, 1025, content=b"other-token")
    return ber.ser(root)


def bytes_known_control(mid, role, with_value):
    oid = "1.2.840.113556.1.4.417" if mid % 2 else "1.2.840.113556.1.4.2065"
    ctl = (oid, bool(mid % 3 == 0), b"unusual-value" if with_value else None, None)
    return rfc4511.encode(("ExtendedRequest", mid, ("1.2.3", None), (ctl,)) if role == "server" else ("SearchResultEntry", mid, ("cn=x", ()), (ctl,)))


# ------------------------------------------------------------------ sequences

def g_sequence(r, subset):
    """Returns (role, steps). subset: bitmask of custom registrations this session performs at some point."""
    role = r.choice(["client", "server"])
    shadow = Driver(role, "drain")
    retired: t.List[int] = []
    steps = []
    regs = [(k if r.random() < 0.6 else k + "2") for b, k in ((1, "control"), (2, "filter"), (4, "auth")) if subset & b]
    reg_at = {r.randrange(0, 8): k for k in regs}
    fresh = 20
    n = r.choice([4, 8, 14, 20])
    for i in range(n):
        if i in reg_at:
            steps.append(("register", reg_at.pop(i)))
            continue
        x = r.random()
        if x < 0.08:
            steps.append(("register", r.choice(list(REG))))
        elif x < 0.3:
            fresh += 1
            if role == "server":
                steps.append(("receive", r.choice([bytes_custom_control(fresh, role), bytes_custom_filter(fresh), bytes_custom_auth(fresh), bytes_other("control", fresh, role),
                                                   bytes_other("filter", fresh, role), bytes_other("auth", fresh, role), bytes_known_control(fresh, role, True),
                                                   bytes_known_control(fresh, role, False)])))
            else:
                ip = sorted(i_ for i_, k in shadow.model.ip.items() if k == "search")
                mid_ = ip[0] if ip else 1
                steps.append(("receive", r.choice([bytes_custom_control(mid_, role), bytes_other("control", mid_, role), bytes_known_control(mid_ + r.choice([0, 1, 2]) * 0 + (0 if ip else 0), role, True),
                                                   bytes_known_control(mid_, role, False)])))
        elif x < 0.5:
            fresh += 1
            a = ("receive", H.crafted_for_server(r, shadow, fresh) if role == "server" else H.crafted_for_client(r, shadow, retired))
            steps.append(a)
            before = set(shadow.model.ip)
            shadow.step(a)
            retired.extend(before - set(shadow.model.ip))
        elif x < 0.58 and role == "client":
            steps.append(("custom-search", "v%d" % i))
        elif x < 0.64 and role == "client":
            steps.append(("custom-bind", "u%d" % i))
        elif x < 0.7:
            steps.append(("custom-control-call", i))
        else:
            a = H.client_api_action(r) if role == "client" else H.server_api_action(r, shadow, retired)
            steps.append(a)
            before = set(shadow.model.ip)
            shadow.step(a)
            retired.extend(before - set(shadow.model.ip))
    for k in reg_at.values():
        steps.append(("register", k))
    return role, steps


def new_session(role):
    return sl.LDAPClient() if role == "client" else sl.LDAPServer()


def exec_step(role, sess, drv_call, a, held=None):
    """Execute one step on a bare session; return the transcript entry."""
    try:
        k = a[0]
        if k == "register":
            meth, cls = REG[a[1]]
            ret = getattr(sess, meth)(cls)
        elif k == "custom-search":
            ret = sess.search_request("dc=c", filter=CustomFilter(value=a[1]))
        elif k == "custom-bind":
            ret = sess.bind("cn=c", CustomAuth(username=a[1]))
        elif k == "custom-control-call":
            if role == "client":
                ret = sess.extended_request("1.2.3", None, controls=[CustomControl(critical=True, size=a[1])])
            else:
                ret = sess.extended_response(1, controls=[CustomControl(critical=False, size=a[1])])
        else:
            ret = drv_call(a)
        out = ("ret", repr(ret))
        if k == "receive" and isinstance(ret, list):
            if held is not None:
                held.extend(ret)
            out = out + (repr([deep(m) for m in ret]),)
    except Exception as e:
        out = ("exc", type(e).__name__, str(e))
    return out + (sess.state.name, sess.data_to_send().hex())


def deep(m):
    """Full public content of a returned message incl. fields excluded from repr (e.g. control .value)."""
    try:
        return (av.abstract(m), [(type(c).__name__, c.control_type, c.critical, c.value) for c in m.controls])
    except Exception as e:
        return ("unabstractable", type(e).__name__)


def make_runner(role):
    sess = new_session(role)
    d = Driver(role, "drain", session=sess)  # only its _call dispatcher is used
    return sess, d._call


def run_isolated(seq):
    role, steps = seq
    sess, call = make_runner(role)
    held = []
    tr = [exec_step(role, sess, call, a, held) for a in steps]
    tr.append(("held-at-end", repr([deep(m) for m in held])))
    return tr


def run_interleaved(seqs, schedule):
    """schedule: list of sequence indices, one per step overall."""
    runners = [make_runner(role) for role, _ in seqs]
    pos = [0] * len(seqs)
    tr = [[] for _ in seqs]
    held = [[] for _ in seqs]
    for si in schedule:
        role, steps = seqs[si]
        if pos[si] >= len(steps):
            continue
        sess, call = runners[si]
        tr[si].append(exec_step(role, sess, call, steps[pos[si]], held[si]))
        pos[si] += 1
    for si, (role, steps) in enumerate(seqs):
        sess, call = runners[si]
        while pos[si] < len(steps):
            tr[si].append(exec_step(role, sess, call, steps[pos[si]], held[si]))
            pos[si] += 1
    for si in range(len(seqs)):
        tr[si].append(("held-at-end", repr([deep(m) for m in held[si]])))
    return tr


def run_threads(seqs):
    tr = [None] * len(seqs)
    old = sys.getswitchinterval()
    sys.setswitchinterval(1e-6)
    barrier = threading.Barrier(len(seqs))

    helds = [[] for _ in seqs]
    done = threading.Barrier(len(seqs))

    def work(i):
        role, steps = seqs[i]
        sess, call = make_runner(role)
        barrier.wait()
        out = [exec_step(role, sess, call, a, helds[i]) for a in steps]
        done.wait(60)
        out.append(("held-at-end", repr([deep(m) for m in helds[i]])))
        tr[i] = out

    try:
        ths = [threading.Thread(target=work, args=(i,)) for i in range(len(seqs))]
        for th in ths:
            th.start()
        for th in ths:
            th.join(60)
    finally:
        sys.setswitchinterval(old)
    return tr


def alternations(schedule):
    return sum(1 for a, b in zip(schedule, schedule[1:]) if a != b)


def compare(seqs, iso, inter, label):
    for si in range(len(seqs)):
        if inter[si] is None:
            return [("harness:thread-timeout", label)]
        if iso[si] != inter[si]:
            k = next((j for j in range(min(len(iso[si]), len(inter[si]))) if iso[si][j] != inter[si][j]), -1)
            step = seqs[si][1][k][0] if 0 <= k < len(seqs[si][1]) else ("returned-message-mutated-later" if k == len(seqs[si][1]) else "?")
            return [(f"interleaving-changes-behaviour:{step}", f"{label}: session {si} ({seqs[si][0]}) call #{k} ({step}) alone -> {str(iso[si][k])[:160]} ; interleaved -> {str(inter[si][k])[:160]}")]
    return []


def direct_checks():
    """Registration semantics observed directly. Returns (violations, observations)."""
    vio, obs = [], {}
    reg, plain = sl.LDAPServer(), sl.LDAPServer()
    reg.register_control(CustomControl)
    reg.register_filter(CustomFilter)
    reg.register_auth_credential(CustomAuth)
    later = sl.LDAPServer()  # created after the registrations
    # control
    data = bytes_custom_control(5, "server")
    m = reg.receive(data)[0]
    if type(m.controls[0]) is not CustomControl or m.controls[0].size != 77:
        vio.append(("registered-control-not-decoded", f"registered session decoded {m.controls[0]!r}"))
    elif m.pack(reg._packing_options if hasattr(reg, "_packing_options") else sl._messages.PackingOptions()) != data:
        vio.append(("registered-control-reencode", "re-encoding the custom control differs"))
    else:
        obs["direct:registered-decodes-custom"] = 1
    for name, other in (("plain", plain), ("later", later)):
        m2 = other.receive(data)[0]
        c = m2.controls[0]
        if type(c) is not sl.LDAPControl or c.value != struct.pack("<I", 77) or c.control_type != CUSTOM_CONTROL_OID:
            vio.append((f"registration-leaked:control:{name}", f"session without the registration decoded {c!r}"))
        else:
            obs["direct:unregistered-generic-control"] = obs.get("direct:unregistered-generic-control", 0) + 1
    # filter / auth
    for kind, data2, cls, attr in (("filter", bytes_custom_filter(6), CustomFilter, "filter"), ("auth", bytes_custom_auth(7), CustomAuth, "authentication")):
        r2 = sl.LDAPServer()
        getattr(r2, REG[kind][0])(cls)
        got = r2.receive(data2)[0]
        if type(getattr(got, attr)) is not cls:
            vio.append((f"registered-{kind}-not-decoded", repr(got)))
        elif got.pack(sl._messages.PackingOptions()) != data2:
            vio.append((f"registered-{kind}-reencode", "re-encoding differs"))
        else:
            obs["direct:registered-decodes-custom"] = obs.get("direct:registered-decodes-custom", 0) + 1
        for other in (sl.LDAPServer(),):
            try:
                res = other.receive(data2)
                vio.append((f"registration-leaked:{kind}", f"session without the registration accepted the custom {kind}: {res!r}"))
            except sl.ProtocolError:
                obs[f"direct:unregistered-{kind}-protocolerror"] = 1
    # duplicates
    for kind in ("control", "filter", "auth"):
        s3 = sl.LDAPClient()
        meth, cls = REG[kind]
        getattr(s3, meth)(cls)
        try:
            getattr(s3, meth)(cls)
            vio.append((f"duplicate-registration-accepted:{kind}", "second registration of the same id accepted"))
        except ValueError:
            obs["direct:duplicate-refused"] = obs.get("direct:duplicate-refused", 0) + 1
        meth2, cls2 = REG["clash-" + kind]
        try:
            getattr(sl.LDAPClient(), meth2)(cls2)
            vio.append((f"builtin-clash-accepted:{kind}", "registration re-using a built-in id accepted"))
        except ValueError:
            obs["direct:builtin-clash-refused"] = obs.get("direct:builtin-clash-refused", 0) + 1
        # a fresh session can still register (the earlier registration was per session)
        try:
            getattr(sl.LDAPClient(), meth)(cls)
        except ValueError:
            vio.append((f"registration-leaked:{kind}:fresh-session-refuses", "fresh session refused a first registration"))
    return vio, obs


def run_case(seed_parts, nseq, thorough, threads=False):
    from vf.common import rng_for

    r = rng_for("c19", *seed_parts)
    subsets = [r.randrange(8) for _ in range(nseq)]
    seqs = [g_sequence(r, sub) for sub in subsets]
    iso = [run_isolated(s) for s in seqs]
    # determinism of a sequence run alone twice (precondition for the comparison)
    if [run_isolated(s) for s in seqs] != iso:
        return [("nondeterministic-alone", "running the same sequence alone twice gives different transcripts")], {}, seqs, subsets
    total = sum(len(s[1]) for s in seqs)
    obs = {}
    vio = []
    scheds = []
    order = list(range(nseq))
    scheds.append(("sequential", [i for i in order for _ in seqs[i][1]]))
    scheds.append(("sequential", [i for i in reversed(order) for _ in seqs[i][1]]))
    scheds.append(("alternation", [k % nseq for k in range(total * nseq)]))
    for _ in range(40 if thorough else 20):
        scheds.append(("random", [r.randrange(nseq) for _ in range(total + 5)]))
    interesting = any(a[0] in ("register", "receive") for _, st in seqs for a in st)
    nts = []
    for label, sch in scheds:
        obs["schedule:" + label] = obs.get("schedule:" + label, 0) + 1
        alt = alternations(sch)
        if alt >= 10:
            obs["alternations>=10"] = obs.get("alternations>=10", 0) + 1
        if alt >= 3 and interesting:
            nts.append(tuple(sch))
        vio += compare(seqs, iso, run_interleaved(seqs, sch), label)
        if vio:
            break
    if threads and not vio:
        obs["schedule:threads"] = 1
        for _ in range(3):
            vio += compare(seqs, iso, run_threads(seqs), "threads")
    for sub in subsets:
        obs[f"registration-subset:{sub}"] = 1
    if any(a[0] == "register" for _, st in seqs for a in st):
        obs["registration-in-sequence"] = 1
    if any(a[0] in ("custom-search", "custom-bind", "custom-control-call") or (a[0] == "receive" and b"\x9f\x88\x00" in a[1]) for _, st in seqs for a in st):
        obs["custom-bytes-in-sequence"] = 1
    obs["_nts"] = nts
    return vio, obs, seqs, subsets


def safe_direct_checks():
    try:
        return direct_checks()
    except Exception as e:  # the library misbehaving inside a direct check is an observation, not a harness failure
        import traceback

        tb = traceback.extract_tb(e.__traceback__)
        where = next((f"{fr.name}:{fr.lineno}" for fr in tb if fr.filename.endswith("c19.py") and fr.name == "direct_checks"), "?")
        return [(f"direct-check-exception:{type(e).__name__}", f"registration-scope check at {where} raised {type(e).__name__}: {e}")], {}


def run_shard(ctx: Ctx, acc: Acc):
    vio, obs = safe_direct_checks()
    acc.case()
    for k, v in obs.items():
        acc.count(k, v)
    for key, what in vio:
        acc.violation(key, what, {"direct": True})
    n = ctx.scale(1600, 40_000)
    for i in range(n):
        parts = (ctx.seed, ctx.shard, i)
        nseq = 2 if i % 3 else 3
        threads = ctx.thorough and i % 10 == 0
        vio, obs, seqs, subsets = run_case(parts, nseq, ctx.thorough, threads)
        nts = obs.pop("_nts", [])
        acc.case(sum(v for k, v in obs.items() if k.startswith("schedule:")))
        for k, v in obs.items():
            acc.count(k, v)
        for sch in nts:
            acc.nontrivial(parts, sch)
        if i < 2:
            acc.sample({"sequences": [(role, [(a[0], a[1] if a[0] == "register" else None) for a in st]) for role, st in seqs], "subsets": subsets})
        for key, what in vio:
            acc.violation(key, what, {"seed_parts": list(parts), "nseq": nseq, "threads": threads})


def replay(w):
    if w.get("direct"):
        return safe_direct_checks()[0]
    vio, obs, seqs, subsets = run_case(tuple(w["seed_parts"]), w["nseq"], True, w.get("threads", False))
    return vio
