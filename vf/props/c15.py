"""C15 - filter parser is total and only accepts what it can faithfully represent (fault enumeration on text)."""
from __future__ import annotations

import re

from vf import absval as av
from vf.common import call_with_headroom, Acc, CpuTimeout, Ctx, cpu_limit, norm_msg
from vf.gen import filters as gf
from vf.ref import rfc4515

sl = av.sl
FSE = sl._filter.FilterSyntaxError
LEVEL = "fault_enumeration"
RULE = (
    "text inputs: random strings over a structural alphabet; EVERY single-character edit (deletion; replacement/insertion with each of 32 "
    "structural/control characters incl. \\n \\r \\t NUL) of grammar sentences (exhaustive per sentence); unbalanced parentheses; nesting "
    "10..100000 levels; strings with lone surrogates (counted separately); a backslash followed by pairs that lenient hex converters take (blanks, signs, 0x, _, non-ASCII digits) in every value position. Oracle: outcome is a filter or FilterSyntaxError with 0 <= offset, "
    "0 <= length, offset+length <= len(UTF-8 of the text the error reports); accepted trees are walked with independent RFC 4512 recognisers "
    "for attribute descriptions and matching rules and must re-parse from their own text form to an equal tree; "
    "non-trivial = input that is not a sentence of the grammar; distinct by hash of the text"
)
ASSUMPTIONS = [
    "offsets are judged against the UTF-8 bytes of the (stripped) text carried by the error object - the parser works on bytes (DESIGN 5/C15)",
    "strings with lone surrogates are not text: any ValueError subclass is accepted for them (DESIGN 7.6)",
    "each parse runs under a 10 CPU-second watchdog; expiry is reported to C18 and is inconclusive here",
]
SINGLE_ARC = re.compile(r"(?:0|[1-9][0-9]*)(?:;[A-Za-z0-9-]+)*\Z")


def shards(tier):
    return 16


def gates(c, tier):
    out = []
    tot = c.get("outcome:accepted", 0) + c.get("outcome:FilterSyntaxError", 0)
    for k in ("outcome:accepted", "outcome:FilterSyntaxError"):
        if tot and c.get(k, 0) < 0.1 * tot:
            out.append(f"{k} below 10% of cases ({c.get(k, 0)}/{tot})")
    for k in ("part:random", "part:edits", "part:unbalanced", "part:extra-data", "part:escape-shapes", "part:many-components", "part:nest", "part:decorated-truncations", "part:repeated-malformed-fragment", "part:low-stack-headroom", "part:surrogates", "accepted-tree-walked", "accepted-reparsed", "offsets-checked"):
        if c.get(k, 0) == 0:
            out.append(f"never ran {k}")
    return out


def walk_names(f, bad):
    """Collect RFC 4512-invalid attribute descriptions / matching rules of an accepted tree."""
    if isinstance(f, (sl.FilterAnd, sl.FilterOr)):
        for x in f.filters:
            walk_names(x, bad)
    elif isinstance(f, sl.FilterNot):
        walk_names(f.filter, bad)
    elif isinstance(f, sl.FilterExtensibleMatch):
        if f.attribute is not None and not rfc4515.valid_attr(f.attribute):
            bad.append(("attribute", f.attribute))
        if f.rule is not None and not rfc4515.valid_oid(f.rule):
            bad.append(("rule", f.rule))
        if f.attribute is None and f.rule is None:
            bad.append(("extensible", "neither attribute nor rule"))
    else:
        if not rfc4515.valid_attr(f.attribute):
            bad.append(("attribute", f.attribute))


def check_text(text: str, surrogate: bool = False):
    """Returns (violations, observations)."""
    obs = {}
    out = []
    try:
        with cpu_limit(10):
            got = sl.LDAPFilter.from_string(text)
    except CpuTimeout:
        obs["cpu-timeout"] = 1
        if len(text) <= 1024:
            out.append(("no-return-within-cpu-budget", f"from_string of a {len(text)}-character text did not return within 10 CPU-seconds: {text[:60]!r}"))
        return out, obs
    except FSE as e:
        obs["outcome:FilterSyntaxError"] = 1
        if not isinstance(e, ValueError):
            out.append(("filter-syntax-error-is-not-a-ValueError", f"{type(e).__name__} with bases {[b.__name__ for b in type(e).__mro__[1:4]]}"))
        obs["site:" + re.sub(r"[^A-Za-z ]+", "", str(e))[:30].strip()] = 1
        try:
            # offsets count octets of e.filter, which must be the input of this call (up to the surrounding blanks the
            # library strips) - not the text of some earlier call
            blen = len(e.filter.encode("utf-8", "surrogateescape"))
            obs["offsets-checked"] = 1
            if isinstance(getattr(e, "filter", None), str) and e.filter.strip() != text.strip() and not surrogate:
                out.append(("error-reports-another-input", f"{text[:60]!r}: the FilterSyntaxError carries the text {e.filter[:60]!r}"))
            if not (isinstance(e.offset, int) and isinstance(e.length, int)):
                out.append(("error-position-type", f"offset/length are {type(e.offset).__name__}/{type(e.length).__name__}"))
            elif e.offset < 0 or e.length < 0 or e.offset + e.length > blen:
                kind = "negative-length" if e.length < 0 else "negative-offset" if e.offset < 0 else "beyond-input"
                out.append((f"error-position:{kind}", f"{text[:80]!r}: FilterSyntaxError(offset={e.offset}, length={e.length}) for an input of {blen} bytes ({e})"))
        except Exception as e2:
            if not surrogate:
                out.append(("error-position-check", f"{type(e2).__name__}: {e2}"))
        return out, obs
    except RecursionError:
        return [("escape:RecursionError", f"from_string raised RecursionError for a {len(text)}-char text")], obs
    except ValueError as e:
        if surrogate:
            obs["outcome:surrogate-ValueError"] = 1
            return out, obs
        return [(f"escape:{type(e).__name__}", f"{text[:80]!r}: from_string raised {type(e).__name__}: {e}")], obs
    except Exception as e:
        return [(f"escape:{type(e).__name__}", f"{text[:80]!r}: from_string raised {type(e).__name__}: {e}")], obs
    obs["outcome:accepted"] = 1
    if not isinstance(got, sl.LDAPFilter):
        return [("bad-return", f"from_string returned {type(got).__name__}")], obs
    bad = []
    try:
        walk_names(got, bad)
        obs["accepted-tree-walked"] = 1
    except RecursionError:
        bad = []
    if bad:
        kinds = set()
        for what, name in bad:
            if what == "attribute" and SINGLE_ARC.match(name):
                kinds.add("attribute-single-arc-oid")
            elif what == "attribute" and name.endswith("\n"):
                kinds.add("attribute-trailing-newline")
            elif what == "rule" and SINGLE_ARC.match(name.split(";")[0]) and ";" not in name:
                kinds.add("rule-single-arc-oid")
            elif what == "rule" and ";" in name:
                kinds.add("rule-with-options")
            elif what == "rule" and name.endswith("\n"):
                kinds.add("rule-trailing-newline")
            else:
                kinds.add(f"invalid-{what}")
        for k in sorted(kinds):
            out.append((f"accepted-invalid:{k}", f"{text[:80]!r} accepted with RFC 4512-invalid names {bad[:3]}"))
    try:
        s = str(got)
        with cpu_limit(10):
            back = sl.LDAPFilter.from_string(s)
        obs["accepted-reparsed"] = 1
        if av.differs(back, got):
            from vf.props.c13 import collapse_dn

            if av.a_filter(back) == collapse_dn(av.a_filter(got)):
                out.append(("rule-named-dn-with-attribute", f"{text[:80]!r}: accepted filter has a rule spelled 'dn' next to an attribute; its text form reads back as the dn flag"))
            else:
                out.append(("accepted-not-reparsable-equal", f"{text[:80]!r}: accepted as {str(av.a_filter(got))[:100]} but its text form {s[:80]!r} parses to {str(av.a_filter(back))[:100]}"))
    except CpuTimeout:
        obs["cpu-timeout"] = 1
    except RecursionError:
        pass
    except Exception as e:
        out.append((f"accepted-not-reparsable:{type(e).__name__}", f"{text[:80]!r}: accepted, but its text form raised {type(e).__name__}: {e}"))
    return out, obs


def is_sentence(text):
    try:
        rfc4515.parse(text, decoration=True, strict_values=True)
        return True
    except (rfc4515.FilterRefError, RecursionError, UnicodeEncodeError):
        return False


class StopShard(Exception):
    pass


def run_shard(ctx: Ctx, acc: Acc):
    try:
        _run_shard(ctx, acc)
    except StopShard:
        acc.count("shard-stopped-early-after-hangs")


def _run_shard(ctx: Ctx, acc: Acc):
    def do(part, text, surrogate=False):
        acc.case()
        acc.count("part:" + part)
        vio, obs = check_text(text, surrogate)
        for k, v in obs.items():
            acc.count(k, v)
        if surrogate or len(text) > 3000 or not is_sentence(text):
            acc.nontrivial(text if len(text) < 3000 else (len(text), text[:50]))
        for key, what in vio:
            acc.violation(key, what, {"text": text if len(text) <= 5000 else None, "gen": None if len(text) <= 5000 else part, "surrogate": surrogate})
            if key == "no-return-within-cpu-budget":
                acc.count("no-return")
        if acc.counters.get("no-return", 0) >= 3:
            raise StopShard()

    n = ctx.scale(60_000, 1_200_000)
    for i in range(n // 3):
        r = ctx.rng("rand", i)
        do("random", gf.g_random_text(r))
    ns = max(1, n // 2500)
    for j in range(ns):
        r = ctx.rng("edit", j)
        hostile = (j % 2 == 1)
        tree = gf.g_text_filter(r, r.choice([0, 1, 2]), fan=2, hostile=hostile)
        s = gf.Render(r, decoration=r.random() < 0.3, raw_rate=0.8).sentence(tree)
        if len(s) > 60:
            tree = gf.g_text_filter(r, 0, fan=2, hostile=hostile)
            s = gf.Render(r, decoration=False, raw_rate=0.8).sentence(tree)
        if j == 0:
            acc.sample({"sentence": s, "edits": len(list(gf.edits(s)))})
        for kind, t in gf.edits(s):
            do("edits", t)
    for j in range(max(1, n // 600)):
        r = ctx.rng("unb", j)
        tree = gf.g_text_filter(r, r.choice([1, 2, 3]), fan=3, hostile=False)
        s = gf.Render(r, decoration=False).sentence(tree)
        idx = [k for k, ch in enumerate(s) if ch in "()"]
        for k in idx:
            do("unbalanced", s[:k] + s[k + 1 :])
            do("unbalanced", s[:k] + s[k] * 2 + s[k + 1 :])
    # small decorated filters (blanks at every tolerated position): every prefix, every suffix, every single deletion
    if ctx.shard % 4 == 2:
        for base in ("(&(!(a=b) ) (c=d) )", "( & ( a=b ) ( ! ( c=d ) ) )", "(|(!(a=b)  )(c=*) )", "(!(&(a=b) (c=d) ) )", " (&(a=b)(!(c>=d) )) ", "(&(|(a=b) ) (!(c~=d) ) )", "(! (a:dn:=b) )",
                     "(&(a=b)(c=d)) ", "(&  (a=b)\t(c=d))", "(!(a=*b*) )"):
            for k in range(len(base) + 1):
                do("decorated-truncations", base[:k])
                do("decorated-truncations", base[k:])
                if k < len(base):
                    do("decorated-truncations", base[:k] + base[k + 1:])
                    do("decorated-truncations", base[:k] + " " + base[k:])
    # substring items whose components decode to text that itself looks like an escape, a star or a backslash
    if ctx.shard % 4 == 0:
        for comp in ("\\5c2a", "\\5c5c", "\\2a", "\\5c", "a\\5c2ab", "\\5C28", "\\5c\\32a"):
            for shape in ("(cn={c}*)", "(cn=*{c})", "(cn=a*{c})", "(cn={c}*b)", "(cn=a*{c}*b)", "(cn=*{c}*)", "(&(cn=a*{c})(sn=x))", "(cn={c})", "(cn>={c})"):
                do("escape-shapes", shape.format(c=comp))
        # a backslash followed by two characters that lenient hex converters take (bytes.fromhex skips blanks, int(x, 16)
        # takes signs, underscores, blanks and non-ASCII digits): if accepted, the result must still parse back (round-18 change C15-21)
        for pair in ("  ", "\t\t", " \t", "\n\n", "\r\n", "\x0b\x0c", "+1", "-1", " 1", "1 ", "0x", "0X", "_1", "1_", "\u0661\u0662", "\uff11\uff12", "\uff21\uff22", "a ", " a"):
            for shape in ("(cn=\\{c}*)", "(cn=*\\{c})", "(cn=a*\\{c})", "(cn=\\{c}*b)", "(cn=a*\\{c}*b)", "(cn=*\\{c}*)", "(&(cn=a*\\{c}*)(sn=x))", "(cn=\\{c})", "(cn>=\\{c})", "(cn=x\\{c}y)", "(cn:=\\{c})",
                          "(cn=\\{c}\\{c}*b)", "(cn=a*\\41\\{c})"):
                do("escape-shapes", shape.format(c=pair))
    # substring items with hundreds of components (list positions beyond any small-number special case)
    if ctx.shard % 4 == 1:
        for k in (254, 255, 256, 257, 258, 259, 300, 1000):
            for shape in ("(cn=i*{m}f)", "(cn=*{m}f)", "(cn=i*{m})", "(cn=*{m})", "(&(cn=i*{m}f)(sn=x))"):
                do("many-components", shape.format(m="".join(f"v{j % 10}*" for j in range(k))))
    # text after a complete filter, with multi-byte characters at every alignment (error reporting must stay total)
    for j in range(max(1, n // 4000)):
        r = ctx.rng("extra", j)
        head = gf.Render(r, decoration=False).sentence(gf.g_text_filter(r, r.choice([0, 1]), fan=2, hostile=False))
        for k in range(0, 26):
            for mb in ("é", "中", "\U0001f600", "éé中"):
                do("extra-data", head + "x" * k + mb + r.choice(["", "y", ")(", "(cn=b)"]) * r.choice([1, 3]))
                do("extra-data", head + " " * (k % 3) + "(" + "a" * k + mb + "=b)")
    depths = [10, 100, 400, 490, 495, 497, 500, 600, 990, 1500, 5000, 100000]
    for di, d in enumerate(depths):
        if di % ctx.nshards != ctx.shard:
            continue
        for op in "&|!":
            do("nest", ("(" + op) * d + "(a=b)" + ")" * d)
            do("nest", ("(" + op) * d + "(a=b)" + ")" * (d - 1))
            do("nest", ("(" + op) * d)
        do("nest", "(" * d + "a=b" + ")" * d)
        do("nest", ")" * d)
    # the same malformed fragment at a far position of a long filter, then at the start of a short one (and back)
    for j in range(60):
        r = ctx.rng("repeat", j)
        frag = r.choice(["\\zz", "\\4", "a\\", "\\g1", "\\", "x\\2", "\\0g", "*\\zz", "ab\\c", "\\zz*", "(", "a(b", "\\5"])
        pad = "(objectClass=person)(description=" + "d" * r.choice([10, 40, 200]) + ")(sn=\\c3\\a9t\\c3\\a9)"
        op = r.choice(["=", ">=", "<=", "~=", ":=", ":dn:=", ":caseExactMatch:="])
        long_text = "(&" + pad + "(cn" + op + frag + "))"
        short_text = "(cn" + op + frag + ")"
        for text in (long_text, short_text, long_text, short_text):
            do("repeated-malformed-fragment", text)
    # the same totality when the application calls from deep inside its own recursion (little stack headroom)
    for j in range(40):
        r = ctx.rng("headroom", j)
        d = r.choice([5, 20, 60, 100, 128, 200])
        h = r.choice([40, 80, 150, 250, 400])
        op = r.choice("&|!")
        text = ("(" + op) * d + "(a=b)" + ")" * d
        acc.case()
        acc.count("part:low-stack-headroom")
        acc.nontrivial("headroom", d, h, op)
        try:
            vio, obs = call_with_headroom(h, lambda: check_text(text))
        except RecursionError:  # the harness itself ran out of frames around the call: nothing observed
            acc.count("headroom:harness-overflow")
            continue
        acc.count("headroom:" + ("parsed" if not obs.get("outcome:FilterSyntaxError") else "FilterSyntaxError"))
        for key, what in vio:
            acc.violation(key + ":low-stack-headroom", what + f" (called with ~{h} frames of headroom)", {"text": text, "headroom": h})
    for j in range(max(1, n // 60)):
        r = ctx.rng("sur", j)
        base = gf.g_random_text(r) if r.random() < 0.5 else "(cn=abc)"
        k = r.randrange(0, len(base) + 1)
        do("surrogates", base[:k] + r.choice(["\ud800", "\udfff", "\udc80", "\ud83d"]) + base[k:], surrogate=True)


def replay(w):
    if w.get("text") is None:
        return []
    if w.get("headroom"):
        try:
            return [(k + ":low-stack-headroom", x) for k, x in call_with_headroom(w["headroom"], lambda: check_text(w["text"]))[0]]
        except RecursionError:
            return []
    return check_text(w["text"], w.get("surrogate", False))[0]
