"""Independent RFC 4515 filter-string parser (recursive descent over UTF-8 bytes), written from the ABNF
in RFC 4515 section 3 and RFC 4512 section 1.4. ABNF literals are case-insensitive. Optionally tolerates the
U+0020 decoration the library documents/pins: around the whole filter, after '(', after '& | !', between
sibling filters and between the last sibling and ')'.

Result: abstract filter tuples as in DESIGN.md Appendix A.
"""
from __future__ import annotations

import re
import typing as t


class FilterRefError(Exception):
    pass


_DESCR = r"[A-Za-z][A-Za-z0-9-]*"
_NUMBER = r"(?:0|[1-9][0-9]*)"
_NUMERICOID = rf"{_NUMBER}(?:\.{_NUMBER})+"
_OID = rf"(?:{_DESCR}|{_NUMERICOID})"
OID_RE = re.compile(rf"{_OID}\Z")
ATTR_RE = re.compile(rf"{_OID}(?:;[A-Za-z0-9-]+)*\Z")


def valid_attr(s: str) -> bool:
    return bool(ATTR_RE.match(s))


def valid_oid(s: str) -> bool:
    return bool(OID_RE.match(s))


def _utf8_len(b: bytes, i: int) -> int:
    """Length of the well-formed UTF-8 multi-byte sequence at i (UTFMB), or 0."""
    c = b[i]
    n = 2 if 0xC2 <= c <= 0xDF else 3 if 0xE0 <= c <= 0xEF else 4 if 0xF0 <= c <= 0xF4 else 0
    if not n or i + n > len(b):
        return 0
    try:
        b[i : i + n].decode("utf-8")
    except UnicodeDecodeError:
        return 0
    return n


def unescape_value(raw: bytes, strict: bool = True) -> bytes:
    """assertionvalue = *(normal / "\\" HEX HEX). strict: octets outside `normal` must be escaped."""
    out = bytearray()
    i = 0
    while i < len(raw):
        c = raw[i]
        if c == 0x5C:
            h = raw[i + 1 : i + 3]
            if len(h) != 2 or not re.fullmatch(rb"[0-9A-Fa-f]{2}", h):
                raise FilterRefError("bad escape")
            out.append(int(h, 16))
            i += 3
            continue
        if c < 0x80:
            if strict and c in (0x00, 0x28, 0x29, 0x2A):
                raise FilterRefError(f"octet {c:#x} must be escaped")
            out.append(c)
            i += 1
            continue
        n = _utf8_len(raw, i)
        if n == 0:
            if strict:
                raise FilterRefError("raw octet that is not well-formed UTF-8")
            out.append(c)
            i += 1
            continue
        out += raw[i : i + n]
        i += n
    return bytes(out)


class Parser:
    def __init__(self, data: bytes, decoration: bool = True, strict_values: bool = True):
        self.b = data
        self.i = 0
        self.deco = decoration
        self.strict = strict_values

    def sp(self):
        if self.deco:
            while self.i < len(self.b) and self.b[self.i] == 0x20:
                self.i += 1

    def filter(self, depth=0):
        if self.i >= len(self.b) or self.b[self.i] != 0x28:
            raise FilterRefError(f"expected '(' at {self.i}")
        self.i += 1
        self.sp()
        if self.i >= len(self.b):
            raise FilterRefError("unterminated")
        c = self.b[self.i]
        if c in (0x26, 0x7C):  # & |
            self.i += 1
            self.sp()
            kids = []
            while self.i < len(self.b) and self.b[self.i] == 0x28:
                kids.append(self.filter(depth + 1))
                self.sp()
            if not kids:
                raise FilterRefError("and/or needs 1*filter")
            node = ("and" if c == 0x26 else "or", tuple(kids))
        elif c == 0x21:
            self.i += 1
            self.sp()
            node = ("not", self.filter(depth + 1))
            self.sp()
        else:
            j = self.b.find(b")", self.i)
            if j < 0:
                raise FilterRefError("unterminated item")
            node = self.item(self.b[self.i : j])
            self.i = j
        if self.i >= len(self.b) or self.b[self.i] != 0x29:
            raise FilterRefError(f"expected ')' at {self.i}")
        self.i += 1
        return node

    def item(self, it: bytes):
        e = it.find(b"=")
        if e <= 0:
            raise FilterRefError("item without attribute/=")
        prev = it[e - 1 : e]
        value = it[e + 1 :]
        if prev in (b"~", b">", b"<"):
            attr = self._attr(it[: e - 1])
            return ({b"~": "approx", b">": "ge", b"<": "le"}[prev], attr, unescape_value(value, self.strict))
        if prev == b":":
            return self.extensible(it[: e - 1], value)
        attr = self._attr(it[:e])
        if b"*" not in value:
            return ("eq", attr, unescape_value(value, self.strict))
        if value == b"*":
            return ("present", attr)
        parts = value.split(b"*")
        ini = unescape_value(parts[0], self.strict) if parts[0] else None
        fin = unescape_value(parts[-1], self.strict) if parts[-1] else None
        anys = []
        for p in parts[1:-1]:
            if not p:
                raise FilterRefError("empty substring component (RFC 4511 requires non-empty substrings)")
            anys.append(unescape_value(p, self.strict))
        return ("sub", attr, ini, tuple(anys), fin)

    def _attr(self, raw: bytes) -> str:
        try:
            s = raw.decode("ascii")
        except UnicodeDecodeError:
            raise FilterRefError("attribute description not ASCII")
        if not valid_attr(s):
            raise FilterRefError(f"invalid attribute description {s!r}")
        return s

    def extensible(self, header: bytes, value: bytes):
        try:
            parts = header.decode("ascii").split(":")
        except UnicodeDecodeError:
            raise FilterRefError("extensible header not ASCII")
        attr = None
        if parts[0]:
            attr = self._attr(parts[0].encode())
        rest = parts[1:]
        dn = False
        rule = None
        if attr is None:
            # [dnattrs] matchingrule
            if len(rest) == 1:
                rule = rest[0]
            elif len(rest) == 2 and rest[0].lower() == "dn":
                dn, rule = True, rest[1]
            else:
                raise FilterRefError("extensible: expected [:dn] :rule")
        else:
            if len(rest) == 0:
                pass
            elif len(rest) == 1:
                if rest[0].lower() == "dn":
                    dn = True  # ambiguous with a rule spelled 'dn'; the grammar's first alternative is preferred (DESIGN 7.8)
                else:
                    rule = rest[0]
            elif len(rest) == 2 and rest[0].lower() == "dn":
                dn, rule = True, rest[1]
            else:
                raise FilterRefError("extensible: too many components")
        if rule is not None and not valid_oid(rule):
            raise FilterRefError(f"invalid matching rule {rule!r}")
        return ("ext", rule, attr, unescape_value(value, self.strict), dn)


def parse(text: t.Union[str, bytes], decoration: bool = True, strict_values: bool = True):
    b = text.encode("utf-8") if isinstance(text, str) else bytes(text)
    p = Parser(b, decoration, strict_values)
    p.sp()
    node = p.filter()
    p.sp()
    if p.i != len(b):
        raise FilterRefError(f"trailing data at {p.i}")
    return node


# ---------------------------------------------------------------- canonical renderer (used by the self-test)

def escape_all_special(v: bytes) -> str:
    out = []
    for c in v:
        if c < 0x20 or c >= 0x7F or c in (0x28, 0x29, 0x2A, 0x5C):
            out.append(f"\\{c:02x}")
        else:
            out.append(chr(c))
    return "".join(out)


def render(f) -> str:
    k = f[0]
    if k in ("and", "or"):
        return "(" + ("&" if k == "and" else "|") + "".join(render(x) for x in f[1]) + ")"
    if k == "not":
        return "(!" + render(f[1]) + ")"
    if k == "present":
        return f"({f[1]}=*)"
    if k in ("eq", "ge", "le", "approx"):
        return f"({f[1]}{ {'eq': '=', 'ge': '>=', 'le': '<=', 'approx': '~='}[k] }{escape_all_special(f[2])})"
    if k == "sub":
        parts = [escape_all_special(f[2] or b"")] + [escape_all_special(a) for a in f[3]] + [escape_all_special(f[4] or b"")]
        return f"({f[1]}={'*'.join(parts)})"
    if k == "ext":
        _, rule, attr, val, dn = f
        return "(" + (attr or "") + (":dn" if dn else "") + (":" + rule if rule is not None else "") + ":=" + escape_all_special(val) + ")"
    raise ValueError(k)
