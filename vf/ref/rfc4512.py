"""Independent RFC 4512 section 4.1 parser (cursor based, no regex backtracking) for ObjectClassDescription,
AttributeTypeDescription and DITContentRuleDescription, incl. the quoted-SYNTAX variant Active Directory emits.
Returns plain dicts (the abstract definition). Keywords in upper case, as the property states."""
from __future__ import annotations

import typing as t


class SchemaRefError(Exception):
    pass


ALPHA = set("abcdefghijklmnopqrstuvwxyzABCDEFGHIJKLMNOPQRSTUVWXYZ")
DIGIT = set("0123456789")
KEYCHAR = ALPHA | DIGIT | {"-"}


class Cur:
    def __init__(self, s: str):
        self.s = s
        self.i = 0

    def peek(self, n=1):
        return self.s[self.i : self.i + n]

    def eof(self):
        return self.i >= len(self.s)

    def lit(self, x: str):
        if not self.s.startswith(x, self.i):
            raise SchemaRefError(f"expected {x!r} at {self.i}")
        self.i += len(x)

    def wsp(self):
        while self.peek() == " ":
            self.i += 1

    def sp(self):
        if self.peek() != " ":
            raise SchemaRefError(f"expected SP at {self.i}")
        self.wsp()

    def number(self) -> str:
        j = self.i
        if self.peek() == "0":
            self.i += 1
        elif self.peek() in DIGIT and self.peek() != "":
            while self.peek() in DIGIT and self.peek() != "":
                self.i += 1
        else:
            raise SchemaRefError(f"expected number at {self.i}")
        if self.peek() in DIGIT and self.peek() != "":
            raise SchemaRefError("leading zero")
        return self.s[j : self.i]

    def numericoid(self) -> str:
        j = self.i
        self.number()
        if self.peek() != ".":
            raise SchemaRefError("numericoid needs two arcs")
        while self.peek() == ".":
            self.i += 1
            self.number()
        return self.s[j : self.i]

    def descr(self) -> str:
        j = self.i
        if self.peek() not in ALPHA or self.peek() == "":
            raise SchemaRefError(f"expected descr at {self.i}")
        self.i += 1
        while self.peek() in KEYCHAR and self.peek() != "":
            self.i += 1
        return self.s[j : self.i]

    def oid(self) -> str:
        c = self.peek()
        if c != "" and c in DIGIT:
            return self.numericoid()
        return self.descr()

    def oids(self) -> t.List[str]:
        if self.peek() == "(":
            self.i += 1
            self.wsp()
            out = [self.oid()]
            while True:
                save = self.i
                self.wsp()
                if self.peek() == "$":
                    self.i += 1
                    self.wsp()
                    out.append(self.oid())
                else:
                    self.i = save
                    break
            self.wsp()
            self.lit(")")
            return out
        return [self.oid()]

    def qdescr(self) -> str:
        self.lit("'")
        d = self.descr()
        self.lit("'")
        return d

    def qdescrs(self) -> t.List[str]:
        if self.peek() == "(":
            self.i += 1
            self.wsp()
            out = []
            if self.peek() == "'":
                out.append(self.qdescr())
                while True:
                    save = self.i
                    if self.peek() == " ":
                        self.wsp()
                        if self.peek() == "'":
                            out.append(self.qdescr())
                            continue
                    self.i = save
                    break
            self.wsp()
            self.lit(")")
            return out
        return [self.qdescr()]

    def qdstring(self) -> str:
        self.lit("'")
        out = []
        while True:
            if self.eof():
                raise SchemaRefError("unterminated qdstring")
            c = self.s[self.i]
            if c == "'":
                break
            if c == "\\":
                esc = self.s[self.i + 1 : self.i + 3]
                if esc == "27":
                    out.append("'")
                elif esc in ("5c", "5C"):
                    out.append("\\")
                else:
                    raise SchemaRefError("bad escape in qdstring")
                self.i += 3
                continue
            out.append(c)
            self.i += 1
        self.i += 1
        if not out:
            raise SchemaRefError("empty dstring")
        return "".join(out)

    def qdstrings(self) -> t.List[str]:
        if self.peek() == "(":
            self.i += 1
            self.wsp()
            out = []
            if self.peek() == "'":
                out.append(self.qdstring())
                while True:
                    save = self.i
                    if self.peek() == " ":
                        self.wsp()
                        if self.peek() == "'":
                            out.append(self.qdstring())
                            continue
                    self.i = save
                    break
            self.wsp()
            self.lit(")")
            return out
        return [self.qdstring()]

    def keyword(self, kw: str) -> bool:
        """[ SP kw ] lookahead: consumes SP and the keyword when present (followed by SP, ')' or end)."""
        save = self.i
        if self.peek() != " ":
            return False
        self.wsp()
        if self.s.startswith(kw, self.i):
            nxt = self.s[self.i + len(kw) : self.i + len(kw) + 1]
            if nxt in (" ", ")", ""):
                self.i += len(kw)
                return True
        self.i = save
        return False

    def extensions(self) -> t.Dict[str, t.List[str]]:
        out: t.Dict[str, t.List[str]] = {}
        while True:
            save = self.i
            if self.peek() != " ":
                break
            self.wsp()
            if self.peek(2) not in ("X-", "x-"):
                self.i = save
                break
            self.i += 2
            j = self.i
            while self.peek() != "" and (self.peek() in ALPHA or self.peek() in "-_"):
                self.i += 1
            if self.i == j:
                raise SchemaRefError("empty xstring")
            name = self.s[j : self.i]
            self.sp()
            if name in out:
                raise SchemaRefError("duplicate extension")
            out[name] = self.qdstrings()
        return out

    def finish(self):
        self.wsp()
        self.lit(")")
        if not self.eof():
            raise SchemaRefError("trailing data")


def _common(c: Cur) -> dict:
    c.lit("(")
    c.wsp()
    d = {"oid": c.numericoid(), "names": [], "description": None, "obsolete": False}
    if c.keyword("NAME"):
        c.sp()
        d["names"] = c.qdescrs()
    if c.keyword("DESC"):
        c.sp()
        d["description"] = c.qdstring()
    if c.keyword("OBSOLETE"):
        d["obsolete"] = True
    return d


def parse_object_class(s: str) -> dict:
    c = Cur(s)
    d = _common(c)
    d.update(super_types=[], kind="STRUCTURAL", must=[], may=[])
    if c.keyword("SUP"):
        c.sp()
        d["super_types"] = c.oids()
    for k in ("ABSTRACT", "STRUCTURAL", "AUXILIARY"):
        if c.keyword(k):
            d["kind"] = k
            break
    if c.keyword("MUST"):
        c.sp()
        d["must"] = c.oids()
    if c.keyword("MAY"):
        c.sp()
        d["may"] = c.oids()
    d["extensions"] = c.extensions()
    c.finish()
    return d


def parse_attribute_type(s: str) -> dict:
    c = Cur(s)
    d = _common(c)
    d.update(super_type=None, equality=None, ordering=None, substrings=None, syntax=None, syntax_length=None, single_value=False,
             collective=False, no_user_modification=False, usage="userApplications")
    for kw, key in (("SUP", "super_type"), ("EQUALITY", "equality"), ("ORDERING", "ordering"), ("SUBSTR", "substrings")):
        if c.keyword(kw):
            c.sp()
            d[key] = c.oid()
    if c.keyword("SYNTAX"):
        c.sp()
        quoted = c.peek() == "'"
        if quoted:
            c.i += 1
        d["syntax"] = c.numericoid()
        if c.peek() == "{":
            c.i += 1
            d["syntax_length"] = int(c.number())
            c.lit("}")
        if quoted:
            c.lit("'")
    for kw, key in (("SINGLE-VALUE", "single_value"), ("COLLECTIVE", "collective"), ("NO-USER-MODIFICATION", "no_user_modification")):
        if c.keyword(kw):
            d[key] = True
    if c.keyword("USAGE"):
        c.sp()
        for u in ("userApplications", "directoryOperation", "distributedOperation", "dSAOperation"):
            if c.s.startswith(u, c.i) and c.s[c.i + len(u) : c.i + len(u) + 1] in (" ", ")", ""):
                d["usage"] = u
                c.i += len(u)
                break
        else:
            raise SchemaRefError("bad usage")
    d["extensions"] = c.extensions()
    c.finish()
    return d


def parse_dit_content_rule(s: str) -> dict:
    c = Cur(s)
    d = _common(c)
    d.update(aux=[], must=[], may=[], never=[])
    for kw, key in (("AUX", "aux"), ("MUST", "must"), ("MAY", "may"), ("NOT", "never")):
        if c.keyword(kw):
            c.sp()
            d[key] = c.oids()
    d["extensions"] = c.extensions()
    c.finish()
    return d


PARSERS = {"oc": parse_object_class, "at": parse_attribute_type, "dcr": parse_dit_content_rule}
