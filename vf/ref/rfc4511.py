"""Independent RFC 4511 codec over abstract values (tuples), written from Appendix B of the RFC.

Abstract message: (op, message_id, body, controls)
  controls = tuple of (oid, criticality, value|None, parsed|None); parsed = ("paged", size, cookie)
  see DESIGN.md Appendix A for bodies.
"""
from __future__ import annotations

import typing as t

from .ber import APPL, CTX, UNIV, BerError, Node, int_content, int_value, is_minimal_int, parse, ser

OPS = {
    "BindRequest": 0,
    "BindResponse": 1,
    "UnbindRequest": 2,
    "SearchRequest": 3,
    "SearchResultEntry": 4,
    "SearchResultDone": 5,
    "SearchResultReference": 19,
    "ExtendedRequest": 23,
    "ExtendedResponse": 24,
}
OP_BY_TAG = {v: k for k, v in OPS.items()}
REQUESTS = {"BindRequest", "UnbindRequest", "SearchRequest", "ExtendedRequest"}
PAGED_OID = "1.2.840.113556.1.4.319"
FILTER_TAGS = {"and": 0, "or": 1, "not": 2, "eq": 3, "sub": 4, "ge": 5, "le": 6, "present": 7, "approx": 8, "ext": 9}
FILTER_BY_TAG = {v: k for k, v in FILTER_TAGS.items()}


class RefDecodeError(Exception):
    pass


# ------------------------------------------------------------------ encoder

def _no(_site: str) -> bool:
    return False


class Enc:
    """Encoder producing an annotated Node tree.

    explicit_default(site) -> bool: encode a DEFAULT FALSE component explicitly.
    true_octet(site) -> int: content octet used for TRUE.
    """

    def __init__(self, explicit_default=_no, true_octet=lambda site: 0xFF):
        self.explicit_default = explicit_default
        self.true_octet = true_octet

    # primitives
    def octets(self, b: bytes, cls=UNIV, num=4, kind="OCTETS") -> Node:
        return Node(cls, False, num, content=bytes(b), kind=kind)

    def string(self, s: str, cls=UNIV, num=4, kind="STRING") -> Node:
        return Node(cls, False, num, content=s.encode("utf-8"), kind=kind)

    def integer(self, v: int, num=2, kind="INT") -> Node:
        return Node(UNIV, False, num, content=int_content(v), kind=kind)

    def boolean(self, v: bool, site: str, cls=UNIV, num=1) -> Node:
        return Node(cls, False, num, content=bytes([self.true_octet(site) if v else 0]), kind="BOOL")

    def seq(self, kids, cls=UNIV, num=16, kind="SEQ") -> Node:
        return Node(cls, True, num, children=list(kids), kind=kind)

    # composite
    def result(self, r) -> t.List[Node]:
        code, matched, diag, refs = r
        out = [self.integer(code, num=10, kind="ENUM"), self.string(matched), self.string(diag)]
        if refs is not None:
            out.append(self.seq([self.string(u) for u in refs], cls=CTX, num=3, kind="SEQOF"))
        return out

    def control(self, c) -> Node:
        oid, crit, value, parsed = c
        kids = [self.string(oid)]
        if crit or self.explicit_default("criticality"):
            kids.append(self.boolean(crit, "criticality"))
        if parsed is not None:
            assert parsed[0] == "paged"
            inner = self.seq([self.integer(parsed[1]), self.octets(parsed[2])])
            n = Node(UNIV, False, 4, content=None, kind="OCTETS-WRAP")
            n.meta = inner
            kids.append(n)
        elif value is not None:
            kids.append(self.octets(value))
        n = self.seq(kids, kind="SEQ")
        if len(kids) == 3:
            n.meta = "all-present"  # every defined component is there: whatever follows is beyond the definition
        return n

    def filter(self, f) -> Node:
        k = f[0]
        tag = FILTER_TAGS[k]
        if k in ("and", "or"):
            return self.seq([self.filter(x) for x in f[1]], cls=CTX, num=tag, kind="SETOF")
        if k == "not":
            return self.seq([self.filter(f[1])], cls=CTX, num=tag, kind="EXPLICIT")
        if k in ("eq", "ge", "le", "approx"):
            return self.seq([self.string(f[1]), self.octets(f[2])], cls=CTX, num=tag, kind="SEQ")
        if k == "present":
            return self.string(f[1], cls=CTX, num=tag)
        if k == "sub":
            _, attr, ini, anys, fin = f
            subs = []
            if ini is not None:
                subs.append(self.octets(ini, cls=CTX, num=0))
            for a in anys:
                subs.append(self.octets(a, cls=CTX, num=1))
            if fin is not None:
                subs.append(self.octets(fin, cls=CTX, num=2))
            return self.seq([self.string(attr), self.seq(subs, kind="SEQOF-SUBSTRINGS")], cls=CTX, num=tag, kind="SEQ")
        if k == "ext":
            _, rule, attr, val, dn = f
            kids = []
            if rule is not None:
                kids.append(self.string(rule, cls=CTX, num=1))
            if attr is not None:
                kids.append(self.string(attr, cls=CTX, num=2))
            kids.append(self.octets(val, cls=CTX, num=3))
            if dn or self.explicit_default("dnAttributes"):
                kids.append(self.boolean(dn, "dnAttributes", cls=CTX, num=4))
            return self.seq(kids, cls=CTX, num=tag, kind="SEQ")
        raise ValueError(k)

    def op(self, op: str, body) -> Node:
        tag = OPS[op]
        if op == "BindRequest":
            version, name, auth = body
            if auth[0] == "simple":
                a = self.string(auth[1], cls=CTX, num=0)
            else:
                kids = [self.string(auth[1])]
                if auth[2] is not None:
                    kids.append(self.octets(auth[2]))
                a = self.seq(kids, cls=CTX, num=3, kind="SEQ")
                if len(kids) == 2:
                    a.meta = "all-present"
            return self.seq([self.integer(version), self.string(name), a], cls=APPL, num=tag)
        if op == "BindResponse":
            result, sasl = body
            kids = self.result(result)
            if sasl is not None:
                kids.append(self.octets(sasl, cls=CTX, num=7))
            return self.seq(kids, cls=APPL, num=tag)
        if op == "UnbindRequest":
            return Node(APPL, False, tag, content=b"", kind="NULL")
        if op == "SearchRequest":
            base, scope, deref, size, tm, types_only, flt, attrs = body
            return self.seq(
                [
                    self.string(base),
                    self.integer(scope, num=10, kind="ENUM"),
                    self.integer(deref, num=10, kind="ENUM"),
                    self.integer(size),
                    self.integer(tm),
                    self.boolean(types_only, "typesOnly"),
                    self.filter(flt),
                    self.seq([self.string(a) for a in attrs], kind="SEQOF"),
                ],
                cls=APPL,
                num=tag,
            )
        if op == "SearchResultEntry":
            name, attrs = body
            pal = [
                self.seq([self.string(ty), self.seq([self.octets(v) for v in vals], num=17, kind="SETOF")])
                for ty, vals in attrs
            ]
            return self.seq([self.string(name), self.seq(pal, kind="SEQOF")], cls=APPL, num=tag)
        if op == "SearchResultDone":
            return self.seq(self.result(body[0]), cls=APPL, num=tag)
        if op == "SearchResultReference":
            return self.seq([self.string(u) for u in body[0]], cls=APPL, num=tag, kind="SEQOF")
        if op == "ExtendedRequest":
            name, value = body
            kids = [self.string(name, cls=CTX, num=0)]
            if value is not None:
                kids.append(self.octets(value, cls=CTX, num=1))
            return self.seq(kids, cls=APPL, num=tag)
        if op == "ExtendedResponse":
            result, name, value = body
            kids = self.result(result)
            if name is not None:
                kids.append(self.string(name, cls=CTX, num=10))
            if value is not None:
                kids.append(self.octets(value, cls=CTX, num=11))
            return self.seq(kids, cls=APPL, num=tag)
        raise ValueError(op)

    def message(self, m) -> Node:
        op, mid, body, controls = m
        kids = [self.integer(mid), self.op(op, body)]
        if controls:
            kids.append(self.seq([self.control(c) for c in controls], cls=CTX, num=0, kind="SEQOF"))
        return self.seq(kids, kind="SEQ")


def encode(m) -> bytes:
    return ser(Enc().message(m))


# ------------------------------------------------------------------ strict decoder

def _fail(msg):
    raise RefDecodeError(msg)


def _expect(n: Node, cls, pc, num, what):
    if (n.cls, n.pc, n.num) != (cls, pc, num):
        _fail(f"{what}: expected tag {(cls, pc, num)} got {(n.cls, n.pc, n.num)}")


def _kids(n: Node, what):
    if n.children is None:
        _fail(f"{what}: constructed content is not a TLV series")
    return n.children


def _str(n: Node, what, cls=UNIV, num=4) -> str:
    _expect(n, cls, False, num, what)
    try:
        return n.content.decode("utf-8")
    except UnicodeDecodeError:
        _fail(f"{what}: invalid UTF-8")


def _oct(n: Node, what, cls=UNIV, num=4) -> bytes:
    _expect(n, cls, False, num, what)
    return n.content


def _int(n: Node, what, num=2) -> int:
    _expect(n, UNIV, False, num, what)
    if not is_minimal_int(n.content):
        _fail(f"{what}: non-minimal or empty integer content {n.content.hex()}")
    return int_value(n.content)


def _bool(n: Node, what, cls=UNIV, num=1) -> bool:
    _expect(n, cls, False, num, what)
    if n.content == b"\x00":
        return False
    if n.content == b"\xff":
        return True
    _fail(f"{what}: BOOLEAN content {n.content.hex()} (RFC 4511 5.1: TRUE is 0xFF, one octet)")


def _result(kids: t.List[Node], what):
    if len(kids) < 3:
        _fail(f"{what}: LDAPResult needs 3 components")
    code = _int(kids[0], what + ".resultCode", num=10)
    matched = _str(kids[1], what + ".matchedDN")
    diag = _str(kids[2], what + ".diagnosticMessage")
    refs = None
    rest = kids[3:]
    if rest and (rest[0].cls, rest[0].num) == (CTX, 3):
        _expect(rest[0], CTX, True, 3, what + ".referral")
        refs = tuple(_str(u, what + ".referral.uri") for u in _kids(rest[0], what + ".referral"))
        rest = rest[1:]
    return (code, matched, diag, refs), rest


def _control(n: Node):
    _expect(n, UNIV, True, 16, "Control")
    kids = _kids(n, "Control")
    if not kids:
        _fail("Control: empty")
    oid = _str(kids[0], "Control.controlType")
    rest = kids[1:]
    crit = False
    if rest and (rest[0].cls, rest[0].num) == (UNIV, 1):
        crit = _bool(rest[0], "Control.criticality")
        if crit is False:
            _fail("Control.criticality: DEFAULT FALSE must be omitted")
        rest = rest[1:]
    value = None
    if rest and (rest[0].cls, rest[0].num) == (UNIV, 4):
        value = _oct(rest[0], "Control.controlValue")
        rest = rest[1:]
    if rest:
        _fail("Control: unexpected trailing element")
    parsed = None
    if oid == PAGED_OID:
        if value is None:
            _fail("paged control without value")
        try:
            inner = parse(value)
        except BerError as e:
            _fail(f"paged control value: {e}")
        if inner.end != len(value):
            _fail("paged control value: trailing bytes")
        _expect(inner, UNIV, True, 16, "realSearchControlValue")
        ik = _kids(inner, "realSearchControlValue")
        if len(ik) != 2:
            _fail("realSearchControlValue: expected 2 components")
        parsed = ("paged", _int(ik[0], "paged.size"), _oct(ik[1], "paged.cookie"))
        value = None
    return (oid, crit, value, parsed)


def _filter(n: Node, depth=0):
    if n.cls != CTX or n.num not in FILTER_BY_TAG:
        _fail(f"Filter: unknown choice {(n.cls, n.num)}")
    k = FILTER_BY_TAG[n.num]
    if k in ("and", "or"):
        _expect(n, CTX, True, n.num, "Filter." + k)
        return (k, tuple(_filter(c, depth + 1) for c in _kids(n, "Filter." + k)))
    if k == "not":
        _expect(n, CTX, True, n.num, "Filter.not")
        kids = _kids(n, "Filter.not")
        if len(kids) != 1:
            _fail("Filter.not: expected exactly one filter")
        return ("not", _filter(kids[0], depth + 1))
    if k in ("eq", "ge", "le", "approx"):
        _expect(n, CTX, True, n.num, "Filter." + k)
        kids = _kids(n, "AVA")
        if len(kids) != 2:
            _fail("AttributeValueAssertion: expected 2 components")
        return (k, _str(kids[0], "AVA.attributeDesc"), _oct(kids[1], "AVA.assertionValue"))
    if k == "present":
        return ("present", _str(n, "Filter.present", cls=CTX, num=7))
    if k == "sub":
        _expect(n, CTX, True, 4, "Filter.substrings")
        kids = _kids(n, "SubstringFilter")
        if len(kids) != 2:
            _fail("SubstringFilter: expected 2 components")
        attr = _str(kids[0], "SubstringFilter.type")
        _expect(kids[1], UNIV, True, 16, "SubstringFilter.substrings")
        ini = fin = None
        anys = []
        stage = 0
        for s in _kids(kids[1], "substrings"):
            if s.cls != CTX or s.pc or s.num not in (0, 1, 2):
                _fail(f"substring choice {(s.cls, s.pc, s.num)}")
            if s.num == 0:
                if stage > 0 or ini is not None:
                    _fail("substrings: initial must be first and unique")
                ini = s.content
                stage = 1
            elif s.num == 1:
                if stage > 1:
                    _fail("substrings: any after final")
                anys.append(s.content)
                stage = 1
            else:
                if fin is not None:
                    _fail("substrings: final must be unique")
                fin = s.content
                stage = 2
        return ("sub", attr, ini, tuple(anys), fin)
    if k == "ext":
        _expect(n, CTX, True, 9, "Filter.extensibleMatch")
        rule = attr = None
        val = None
        dn = False
        last = 0
        for c in _kids(n, "MatchingRuleAssertion"):
            if c.cls != CTX or c.num not in (1, 2, 3, 4) or c.num <= last:
                _fail(f"MatchingRuleAssertion: unexpected/out-of-order component {(c.cls, c.num)}")
            last = c.num
            if c.num == 1:
                rule = _str(c, "MRA.matchingRule", cls=CTX, num=1)
            elif c.num == 2:
                attr = _str(c, "MRA.type", cls=CTX, num=2)
            elif c.num == 3:
                val = _oct(c, "MRA.matchValue", cls=CTX, num=3)
            else:
                dn = _bool(c, "MRA.dnAttributes", cls=CTX, num=4)
                if dn is False:
                    _fail("MRA.dnAttributes: DEFAULT FALSE must be omitted")
        if val is None:
            _fail("MRA.matchValue missing")
        return ("ext", rule, attr, val, dn)
    _fail("unreachable")


def _op(n: Node):
    if n.cls != APPL or n.num not in OP_BY_TAG:
        _fail(f"protocolOp: unknown choice {(n.cls, n.num)}")
    op = OP_BY_TAG[n.num]
    if op == "UnbindRequest":
        _expect(n, APPL, False, 2, "UnbindRequest ([APPLICATION 2] NULL is primitive)")
        if n.content != b"":
            _fail("UnbindRequest: NULL has content")
        return op, ()
    _expect(n, APPL, True, n.num, op)
    kids = _kids(n, op)
    if op == "BindRequest":
        if len(kids) != 3:
            _fail("BindRequest: expected 3 components")
        version = _int(kids[0], "BindRequest.version")
        name = _str(kids[1], "BindRequest.name")
        a = kids[2]
        if (a.cls, a.num) == (CTX, 0):
            auth = ("simple", _str(a, "simple", cls=CTX, num=0))
        elif (a.cls, a.num) == (CTX, 3):
            _expect(a, CTX, True, 3, "sasl")
            ak = _kids(a, "SaslCredentials")
            if len(ak) not in (1, 2):
                _fail("SaslCredentials: expected 1 or 2 components")
            auth = ("sasl", _str(ak[0], "sasl.mechanism"), _oct(ak[1], "sasl.credentials") if len(ak) == 2 else None)
        else:
            _fail(f"AuthenticationChoice {(a.cls, a.num)}")
        return op, (version, name, auth)
    if op == "BindResponse":
        result, rest = _result(kids, op)
        sasl = None
        if rest and (rest[0].cls, rest[0].num) == (CTX, 7):
            sasl = _oct(rest[0], "serverSaslCreds", cls=CTX, num=7)
            rest = rest[1:]
        if rest:
            _fail("BindResponse: trailing element")
        return op, (result, sasl)
    if op == "SearchRequest":
        if len(kids) != 8:
            _fail("SearchRequest: expected 8 components")
        _expect(kids[7], UNIV, True, 16, "SearchRequest.attributes")
        return op, (
            _str(kids[0], "baseObject"),
            _int(kids[1], "scope", num=10),
            _int(kids[2], "derefAliases", num=10),
            _int(kids[3], "sizeLimit"),
            _int(kids[4], "timeLimit"),
            _bool(kids[5], "typesOnly"),
            _filter(kids[6]),
            tuple(_str(a, "attributes.selector") for a in _kids(kids[7], "attributes")),
        )
    if op == "SearchResultEntry":
        if len(kids) != 2:
            _fail("SearchResultEntry: expected 2 components")
        name = _str(kids[0], "objectName")
        _expect(kids[1], UNIV, True, 16, "attributes")
        attrs = []
        for pa in _kids(kids[1], "PartialAttributeList"):
            _expect(pa, UNIV, True, 16, "PartialAttribute")
            pk = _kids(pa, "PartialAttribute")
            if len(pk) != 2:
                _fail("PartialAttribute: expected 2 components")
            _expect(pk[1], UNIV, True, 17, "PartialAttribute.vals")
            attrs.append((_str(pk[0], "type"), tuple(_oct(v, "vals.value") for v in _kids(pk[1], "vals"))))
        return op, (name, tuple(attrs))
    if op == "SearchResultDone":
        result, rest = _result(kids, op)
        if rest:
            _fail("SearchResultDone: trailing element")
        return op, (result,)
    if op == "SearchResultReference":
        return op, (tuple(_str(u, "uri") for u in kids),)
    if op == "ExtendedRequest":
        if not kids:
            _fail("ExtendedRequest: requestName missing")
        name = _str(kids[0], "requestName", cls=CTX, num=0)
        value = None
        rest = kids[1:]
        if rest and (rest[0].cls, rest[0].num) == (CTX, 1):
            value = _oct(rest[0], "requestValue", cls=CTX, num=1)
            rest = rest[1:]
        if rest:
            _fail("ExtendedRequest: trailing element")
        return op, (name, value)
    if op == "ExtendedResponse":
        result, rest = _result(kids, op)
        name = value = None
        if rest and (rest[0].cls, rest[0].num) == (CTX, 10):
            name = _str(rest[0], "responseName", cls=CTX, num=10)
            rest = rest[1:]
        if rest and (rest[0].cls, rest[0].num) == (CTX, 11):
            value = _oct(rest[0], "responseValue", cls=CTX, num=11)
            rest = rest[1:]
        if rest:
            _fail("ExtendedResponse: trailing element")
        return op, (result, name, value)
    _fail("unreachable")


def decode_node(n: Node):
    _expect(n, UNIV, True, 16, "LDAPMessage")
    kids = _kids(n, "LDAPMessage")
    if len(kids) not in (2, 3):
        _fail(f"LDAPMessage: expected 2 or 3 components, got {len(kids)}")
    mid = _int(kids[0], "messageID")
    op, body = _op(kids[1])
    controls = ()
    if len(kids) == 3:
        _expect(kids[2], CTX, True, 0, "controls")
        controls = tuple(_control(c) for c in _kids(kids[2], "controls"))
    return (op, mid, body, controls)


def decode_strict(data: bytes):
    """Decode exactly one LDAPMessage occupying all of data."""
    try:
        n = parse(bytes(data))
    except BerError as e:
        raise RefDecodeError(f"BER: {e}")
    if n.end != len(data):
        _fail("bytes after the envelope")
    return decode_node(n)


def decode_stream(data: bytes):
    """Decode a concatenation of LDAPMessages; returns (messages, leftover_bytes)."""
    from .ber import Incomplete

    out = []
    pos = 0
    data = bytes(data)
    while pos < len(data):
        try:
            n = parse(data, pos)
        except Incomplete:
            break
        except BerError as e:
            raise RefDecodeError(f"BER: {e}")
        out.append(decode_node(n))
        pos = n.end
    return out, data[pos:]
