"""Independent BER (X.690) TLV layer written from the standard; shares no code with sansldap.

Node: a parsed or to-be-serialised TLV. Serialisation takes per-node "freedoms"
(length form) so that alternative valid encodings can be produced (C04).
"""
from __future__ import annotations

import typing as t

UNIV, APPL, CTX, PRIV = 0, 1, 2, 3


class BerError(Exception):
    pass


class Incomplete(BerError):
    """More bytes are needed to finish the outermost TLV."""


# ---------------------------------------------------------------- arithmetic (X.690 8.1-8.3)

def ident_octets(cls: int, constructed: bool, num: int) -> bytes:
    first = (cls << 6) | (0x20 if constructed else 0)
    if num < 31:
        return bytes([first | num])
    out = [num & 0x7F]
    num >>= 7
    while num:
        out.append(0x80 | (num & 0x7F))
        num >>= 7
    return bytes([first | 31]) + bytes(reversed(out))


def length_octets(n: int, form: t.Union[str, int] = "min") -> bytes:
    """form: 'min' | number of length octets to use in long form (>= minimal) ."""
    if form == "min":
        if n < 128:
            return bytes([n])
        k = (n.bit_length() + 7) // 8
        return bytes([0x80 | k]) + n.to_bytes(k, "big")
    k = int(form)
    need = max(1, (n.bit_length() + 7) // 8)
    if k < need:
        k = need
    return bytes([0x80 | k]) + n.to_bytes(k, "big")


def int_content(v: int) -> bytes:
    """Minimal two's-complement content octets."""
    n = ((v + (v < 0)).bit_length() // 8) + 1
    return v.to_bytes(n, "big", signed=True)


def int_value(content: bytes) -> int:
    if not content:
        raise BerError("empty INTEGER content")
    return int.from_bytes(content, "big", signed=True)


def is_minimal_int(content: bytes) -> bool:
    if len(content) == 0:
        return False
    if len(content) == 1:
        return True
    if content[0] == 0x00 and not (content[1] & 0x80):
        return False
    if content[0] == 0xFF and (content[1] & 0x80):
        return False
    return True


# ---------------------------------------------------------------- nodes

class Node:
    __slots__ = ("cls", "pc", "num", "content", "children", "kind", "lenform", "start", "hdr", "end", "meta")

    def __init__(self, cls, pc, num, content=None, children=None, kind="", lenform="min"):
        self.cls = cls
        self.pc = pc  # constructed?
        self.num = num
        self.content = content  # bytes for primitive (or opaque constructed)
        self.children = children  # list[Node] for constructed
        self.kind = kind  # schema annotation used by C04/C05 ("SEQ", "SEQOF", "BOOL", ...)
        self.lenform = lenform
        self.start = self.hdr = self.end = 0
        self.meta = None

    def tag(self):
        return (self.cls, self.pc, self.num)

    def __repr__(self):
        c = "ACUP"[self.cls] if False else ("U", "A", "C", "P")[self.cls]
        if self.children is not None:
            return f"<{c}{self.num}{'c' if self.pc else 'p'} {self.kind} [{', '.join(map(repr, self.children))}]>"
        return f"<{c}{self.num}{'c' if self.pc else 'p'} {self.kind} {bytes(self.content or b'').hex()}>"

    def walk(self):
        yield self
        if self.children:
            for ch in self.children:
                yield from ch.walk()


def ser(node: Node) -> bytes:
    if node.children is not None:
        body = b"".join(ser(c) for c in node.children)
    elif isinstance(node.meta, Node):  # primitive wrapper whose content is itself BER (control values)
        body = ser(node.meta)
    else:
        body = bytes(node.content or b"")
    return ident_octets(node.cls, node.pc, node.num) + length_octets(len(body), node.lenform) + body


def read_header(data: bytes, pos: int, end: int) -> t.Tuple[int, bool, int, int, int]:
    """Return (cls, constructed, num, content_start, content_len). Raises Incomplete / BerError."""
    if pos >= end:
        raise Incomplete("no identifier octet")
    b0 = data[pos]
    cls = b0 >> 6
    pc = bool(b0 & 0x20)
    num = b0 & 0x1F
    p = pos + 1
    if num == 31:
        num = 0
        while True:
            if p >= end:
                raise Incomplete("identifier continues")
            b = data[p]
            p += 1
            num = (num << 7) | (b & 0x7F)
            if not b & 0x80:
                break
    if p >= end:
        raise Incomplete("no length octet")
    l0 = data[p]
    p += 1
    if l0 == 0x80:
        raise BerError("indefinite length")
    if l0 & 0x80:
        k = l0 & 0x7F
        if p + k > end:
            raise Incomplete("length octets continue")
        ln = int.from_bytes(data[p : p + k], "big")
        p += k
    else:
        ln = l0
    return cls, pc, num, p, ln


def parse(data: bytes, pos: int = 0, end: t.Optional[int] = None, depth: int = 0, max_depth: int = 400, recurse=True) -> Node:
    """Parse one TLV at pos. Constructed values are parsed recursively when their content
    is itself a well-formed TLV series, otherwise kept opaque (content bytes)."""
    if end is None:
        end = len(data)
    cls, pc, num, cs, ln = read_header(data, pos, end)
    if cs + ln > end:
        raise Incomplete("content continues")
    n = Node(cls, pc, num)
    n.start, n.hdr, n.end = pos, cs, cs + ln
    if pc and recurse and depth < max_depth:
        kids = []
        p = cs
        ok = True
        try:
            while p < cs + ln:
                k = parse(data, p, cs + ln, depth + 1, max_depth)
                kids.append(k)
                p = k.end
        except BerError:
            ok = False
        if ok:
            n.children = kids
            return n
    n.content = bytes(data[cs : cs + ln])
    return n


def frame_count(data: bytes) -> t.Tuple[int, int, t.Optional[str]]:
    """Independent framer: number of complete top-level TLVs in data, offset after the last
    complete one, and an error string if the next header is itself malformed (indefinite)."""
    pos = 0
    n = 0
    while pos < len(data):
        try:
            cls, pc, num, cs, ln = read_header(data, pos, len(data))
        except Incomplete:
            return n, pos, None
        except BerError as e:
            return n, pos, str(e)
        if cs + ln > len(data):
            return n, pos, None
        pos = cs + ln
        n += 1
    return n, pos, None


def frames(data: bytes) -> t.List[bytes]:
    out = []
    pos = 0
    while pos < len(data):
        cls, pc, num, cs, ln = read_header(data, pos, len(data))
        if cs + ln > len(data):
            raise Incomplete("tail")
        out.append(bytes(data[pos : cs + ln]))
        pos = cs + ln
    return out
