"""Executable model of the documented LDAP session state machine (DESIGN.md Appendix B).

Written from the SessionState/LDAPClient/LDAPServer docstrings, RFC 4511 4.2.1 and the statements of
C08-C11; works on abstract values only. A step returns an Expect describing what the real session
must do for the same call.
"""
from __future__ import annotations

import typing as t

from . import rfc4511
from .ber import BerError, Incomplete, parse

BEFORE_OPEN, BINDING, OPENED, CLOSED = "BEFORE_OPEN", "BINDING", "OPENED", "CLOSED"
NOTICE_OID = "1.3.6.1.4.1.1466.20036"
SASL_IN_PROGRESS = 14

RESPONSES = {"BindResponse", "SearchResultEntry", "SearchResultDone", "SearchResultReference", "ExtendedResponse"}
REQUESTS = {"BindRequest", "UnbindRequest", "SearchRequest", "ExtendedRequest"}


class Expect(t.NamedTuple):
    outcome: str  # "ok" | "LDAPError" | "ProtocolError"
    state: str  # state after
    alt_state: t.Optional[str]  # one tolerated alternative (DESIGN 7.4) or None
    emitted: t.Optional[tuple]  # abstract message queued by this call (None = no bytes)
    returned: t.Optional[t.List[tuple]]  # receive: abstract messages returned
    ret_id: t.Optional[int]  # id returned by a send call
    note: str = ""


def is_notice(m) -> bool:
    return m[0] == "ExtendedResponse" and m[2][1] == NOTICE_OID


class SessionModel:
    def __init__(self, role: str):
        assert role in ("client", "server")
        self.role = role
        self.state = BEFORE_OPEN
        self.ip: t.Dict[int, str] = {}  # operations in progress: id -> kind
        self.last_id = 0  # client: last id handed out
        self.inbuf = b""
        self.how_closed: t.Optional[str] = None

    # ---------------------------------------------------------------- helpers
    def _close(self, how):
        self.state = CLOSED
        self.ip = {}
        self.inbuf = b""
        if self.how_closed is None:
            self.how_closed = how

    def _reject(self, note=""):
        alt = OPENED if (self.state == BEFORE_OPEN and self.role == "server") else None
        return Expect("LDAPError", self.state, alt, None, None, None, note)

    def clone(self):
        m = SessionModel(self.role)
        m.state, m.ip, m.last_id, m.inbuf, m.how_closed = self.state, dict(self.ip), self.last_id, self.inbuf, self.how_closed
        return m

    # ---------------------------------------------------------------- client sends
    def client_request(self, kind: str, build: t.Callable[[int], tuple], observed_id: t.Optional[int] = None) -> Expect:
        """kind in bind/search/extended; build(id) -> abstract message. observed_id: the id the real session
        returned (C09 only requires ids to be positive, strictly increasing and unique - not consecutive)."""
        assert self.role == "client"
        if self.state == CLOSED:
            return self._reject("closed")
        if kind == "bind":
            if self.ip:
                return self._reject("bind with operations outstanding")
        elif self.state == BINDING:
            return self._reject("binding: only bind traffic")
        mid = self.last_id + 1
        note = ""
        if observed_id is not None and isinstance(observed_id, int) and not isinstance(observed_id, bool):
            if observed_id <= self.last_id or observed_id <= 0:
                note = f"id {observed_id} not positive / not greater than every earlier id (last {self.last_id})"
            else:
                mid = observed_id
        self.last_id = max(self.last_id, mid)
        self.ip[mid] = kind
        if kind == "bind":
            self.state = BINDING
        elif self.state == BEFORE_OPEN:
            self.state = OPENED
        return Expect("ok", self.state, None, build(mid), None, mid, note)

    def unbind(self) -> Expect:
        if self.state == CLOSED:
            return self._reject("closed")
        self._close("unbind-sent")
        return Expect("ok", CLOSED, None, ("UnbindRequest", 0, (), ()), None, None)

    # ---------------------------------------------------------------- server sends
    def server_response(self, meth: str, mid: int, msg: tuple) -> Expect:
        """meth in bind_response/extended_response/entry/reference/done; msg = abstract message it would emit."""
        assert self.role == "server"
        if self.state == CLOSED:
            return self._reject("closed")
        notice = is_notice(msg)
        if self.state == BINDING and not (meth == "bind_response" or notice):
            return self._reject("binding: only bind response / notice / unbind")
        if mid not in self.ip:
            return self._reject("no such outstanding request")
        if meth not in ("entry", "reference"):
            del self.ip[mid]
        if meth == "bind_response" and msg[2][0][0] != SASL_IN_PROGRESS:
            self.state = OPENED
        elif self.state == BEFORE_OPEN:
            self.state = OPENED
        if notice:
            self._close("notice-sent")
        return Expect("ok", self.state, None, msg, None, mid)

    # ---------------------------------------------------------------- receive
    def receive(self, data: bytes) -> Expect:
        if self.state == CLOSED:
            return Expect("ProtocolError", CLOSED, None, None, None, None, "closed")
        buf = self.inbuf + bytes(data)
        msgs = []
        pos = 0
        bad = None
        while pos < len(buf):
            try:
                n = parse(buf, pos)
            except Incomplete:
                break
            except BerError as e:
                bad = f"BER: {e}"
                break
            # C03's known finding (UnbindRequest emitted with the constructed bit) is not the subject of the session
            # monitors: read 62 00 as the UnbindRequest it is meant to be.
            if n.children and len(n.children) >= 2:
                opn = n.children[1]
                if (opn.cls, opn.pc, opn.num) == (1, True, 2) and opn.children == []:
                    opn.pc, opn.children, opn.content = False, None, b""
            # MS-ADTS form of the notice of disconnection, which the library documents as understood: an ExtendedResponse
            # without a responseName whose envelope ends with [10] carrying the OID (after the controls, if any).
            ms_name = None
            if n.children and len(n.children) >= 3:
                last, opn = n.children[-1], n.children[1]
                if (last.cls, last.pc, last.num) == (2, False, 10) and (opn.cls, opn.num) == (1, 24):
                    ms_name = bytes(last.content or b"")
                    n.children = n.children[:-1]
            try:
                mm = rfc4511.decode_node(n)
                if ms_name is not None and not mm[2][1]:
                    mm = (mm[0], mm[1], (mm[2][0], ms_name.decode("utf-8"), mm[2][2]), mm[3])
                msgs.append(mm)
            except rfc4511.RefDecodeError as e:
                bad = str(e)
                break
            pos = n.end
        if bad is not None:
            self._close("malformed-input")
            return Expect("ProtocolError", CLOSED, None, None, None, None, "malformed: " + bad)
        self.inbuf = buf[pos:]
        for m in msgs:
            why = self._process(m)
            if why:
                self._close(why)
                return Expect("ProtocolError", CLOSED, None, None, None, None, why)
        return Expect("ok", self.state, None, None, msgs, None)

    def _process(self, m) -> t.Optional[str]:
        op, mid = m[0], m[1]
        if is_notice(m):
            return "notice-received"
        if op == "UnbindRequest":
            return "unbind-received"
        if self.role == "client":
            if op not in RESPONSES:
                return "wrong-direction-message"
            if mid not in self.ip:
                return "unknown-id"
            kind = self.ip[mid]
            if not (kind == "search" and op != "SearchResultDone"):
                del self.ip[mid]
            if op == "BindResponse" and m[2][0][0] != SASL_IN_PROGRESS:
                self.state = OPENED
            return None
        # server
        if op not in REQUESTS:
            return "wrong-direction-message"
        if op == "BindRequest":
            if self.ip:
                return "bind-with-outstanding"
            self.state = BINDING
            self.ip[mid] = "bind"
        else:
            if self.state == BEFORE_OPEN:
                self.state = OPENED
            self.ip[mid] = "search" if op == "SearchRequest" else "extended"
        return None
