"""Session fixtures: sessions brought into a given prior history, and small valid streams (reference-encoded)."""
from __future__ import annotations

import typing as t

from vf import absval as av
from vf.ref import rfc4511

sl = av.sl
ST = sl.SessionState

HISTORIES = ["fresh", "binding", "opened-ops", "opened-idle", "after-refused-calls"]


def _drain(s):
    return s.data_to_send()


def client_with(history: str):
    """Returns (client, ids in progress as {id: kind})."""
    c = sl.LDAPClient()
    ip: t.Dict[int, str] = {}
    if history == "binding":
        ip[c.bind_simple("cn=a", "pw")] = "bind"
    elif history == "opened-ops":
        ip[c.search_request("dc=x")] = "search"
        ip[c.extended_request("1.3.6.1.4.1.1466.20037")] = "extended"
    elif history == "opened-idle":
        i = c.extended_request("1.2.3")
        _drain(c)
        c.receive(rfc4511.encode(("ExtendedResponse", i, ((0, "", "", None), None, None), ())))
    elif history == "after-refused-calls":
        # calls refused while BINDING must leave nothing behind; then the bind completes
        i = c.bind_simple("cn=a", "pw")
        for fn in (lambda: c.search_request("dc=x"), lambda: c.extended_request("1.2.3"), lambda: c.search_request("dc=y", scope=17)):
            try:
                fn()
            except (sl.LDAPError, ValueError):
                pass
        _drain(c)
        c.receive(rfc4511.encode(("BindResponse", i, ((0, "", "", None), None), ())))
    _drain(c)
    return c, ip


def server_with(history: str):
    s = sl.LDAPServer()
    ip: t.Dict[int, str] = {}
    if history == "binding":
        s.receive(rfc4511.encode(("BindRequest", 1, (3, "cn=a", ("simple", "pw")), ())))
        ip[1] = "bind"
    elif history == "opened-ops":
        s.receive(rfc4511.encode(("SearchRequest", 1, ("dc=x", 2, 0, 0, 0, False, ("present", "objectClass"), ()), ())))
        s.receive(rfc4511.encode(("ExtendedRequest", 2, ("1.3.6.1.4.1.1466.20037", None), ())))
        ip[1] = "search"
        ip[2] = "extended"
    elif history == "opened-idle":
        s.receive(rfc4511.encode(("ExtendedRequest", 1, ("1.2.3", None), ())))
        s.extended_response(1)
        _drain(s)
    elif history == "after-refused-calls":
        s.receive(rfc4511.encode(("SearchRequest", 1, ("dc=x", 2, 0, 0, 0, False, ("present", "objectClass"), ()), ())))
        for fn in (lambda: s.search_result_done(2), lambda: s.extended_response(3), lambda: s.bind_response(7), lambda: s.search_result_entry(2, "cn=x", [])):
            try:
                fn()
            except sl.LDAPError:
                pass
        s.search_result_done(1)
        _drain(s)
    return s, ip


def session_with(role: str, history: str):
    if history.startswith("custom-raising:"):
        return session_with_raising_control(role, history.split(":", 1)[1])
    return client_with(history) if role == "client" else server_with(history)


# ---------------------------------------------------------------- sessions with registered custom types that fail
RAISING_CONTROL_OID = "1.2.3.4.77"
_RAISING = {}


def raising_control_class(exc_name: str):
    """A registered control type whose unpack raises exc (a custom type is the application's code: it signals a bad value
    the way library types do - ValueError, NotImplementedError - or with the library's own ProtocolError)."""
    import dataclasses

    if exc_name in _RAISING:
        return _RAISING[exc_name]
    exc = {"ValueError": ValueError, "NotImplementedError": NotImplementedError, "ProtocolError": sl.ProtocolError, "RecursionError": RecursionError}[exc_name]

    @dataclasses.dataclass(frozen=True)
    class RaisingControl(sl.LDAPControl):
        control_type: str = dataclasses.field(init=False, repr=False, default=RAISING_CONTROL_OID)
        value: t.Optional[bytes] = dataclasses.field(init=False, repr=False, default=None)
        payload: bytes = b""

        def get_value(self, options):
            return self.payload

        @classmethod
        def unpack(cls, control_type, critical, value, options):
            if value and value.startswith(b"!"):
                raise exc("custom control refuses this value")
            return cls(critical=critical, payload=value or b"")

    _RAISING[exc_name] = RaisingControl
    return RaisingControl


def session_with_raising_control(role: str, exc_name: str):
    sess, ip = session_with(role, "opened-ops")
    sess.register_control(raising_control_class(exc_name))
    return sess, ip
