"""Self-test of the reference oracles (my code, can be wrong). Failure = internal error, never a VIOLATION."""
from __future__ import annotations

import sys
import time

from vf.common import rng_for
from vf.gen import values as gv
from vf.ref import ber, rfc4511


def t_arith():
    for v in list(range(-70000, 70001, 7)) + gv.INT_EDGES:
        c = ber.int_content(v)
        assert ber.int_value(c) == v and ber.is_minimal_int(c), v
    assert ber.int_content(0) == b"\x00" and ber.int_content(-1) == b"\xff" and ber.int_content(128) == b"\x00\x80"
    assert ber.int_content(-128) == b"\x80" and ber.int_content(-129) == b"\xff\x7f" and ber.int_content(256) == b"\x01\x00"
    assert ber.ident_octets(0, True, 16) == b"\x30" and ber.ident_octets(1, True, 24) == b"\x78"
    assert ber.ident_octets(2, False, 31) == b"\x9f\x1f" and ber.ident_octets(2, False, 128) == b"\x9f\x81\x00"
    assert ber.ident_octets(3, True, 16384) == b"\xff\x81\x80\x00"
    assert ber.length_octets(0) == b"\x00" and ber.length_octets(127) == b"\x7f" and ber.length_octets(128) == b"\x81\x80"
    assert ber.length_octets(256) == b"\x82\x01\x00" and ber.length_octets(5, 4) == b"\x84\x00\x00\x00\x05"


def t_4511(n):
    # RFC-style literal: simple bind request, id 1, version 3, dn "cn=a", password "pw"
    lit = bytes.fromhex("3012020101600d0201030404636e3d6180027077")
    m = ("BindRequest", 1, (3, "cn=a", ("simple", "pw")), ())
    assert rfc4511.encode(m) == lit, rfc4511.encode(m).hex()
    assert rfc4511.decode_strict(lit) == m
    # unbind: 30 05 02 01 03 42 00
    assert rfc4511.encode(("UnbindRequest", 3, (), ())) == bytes.fromhex("30050201034200")
    # search request (objectClass=*) base "" scope 2
    sr = ("SearchRequest", 2, ("", 2, 0, 0, 0, False, ("present", "objectClass"), ()), ())
    assert rfc4511.encode(sr) == bytes.fromhex("3025020102632004000a01020a0100020100020100010100870b6f626a656374436c6173733000")
    # notice of disconnection
    nd = ("ExtendedResponse", 0, ((2, "", "x", None), "1.3.6.1.4.1.1466.20036", None), ())
    assert rfc4511.decode_strict(rfc4511.encode(nd)) == nd
    for i in range(n):
        r = rng_for("selftest", i)
        m = gv.g_message(r, gv.SMALL if i % 3 else gv.QUICK)
        b = rfc4511.encode(m)
        try:
            assert rfc4511.decode_strict(b) == m, (m,)
        except rfc4511.RefDecodeError as e:
            # the only abstract values the strict decoder may refuse are those with non-UTF-8... none are generated
            raise AssertionError((m, str(e)))
        assert ber.frame_count(b + b[:3]) == (1, len(b), None)


def main():
    fast = "--fast" in sys.argv
    t0 = time.time()
    t_arith()
    t_4511(150 if fast else 3000)
    try:
        from vf.selftest_text import run as run_text
    except ImportError:
        run_text = None
    if run_text:
        run_text(fast)
    print(f"selftest ok in {time.time() - t0:.2f}s")
    return 0


if __name__ == "__main__":
    sys.exit(main())
