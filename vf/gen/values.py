"""Seeded, boundary-biased generators of abstract values (see DESIGN.md section 5, shared generator)."""
from __future__ import annotations

import random
import typing as t

PAGED_OID = "1.2.840.113556.1.4.319"
SHOWDEL_OID = "1.2.840.113556.1.4.417"
SHOWDEACT_OID = "1.2.840.113556.1.4.2065"
NOTICE_OID = "1.3.6.1.4.1.1466.20036"

SMALL_LENS = [0, 0, 1, 1, 2, 3, 5, 8, 13]
EDGE_LENS = [126, 127, 128, 129, 254, 255, 256, 257]
BIG_LENS = [65534, 65535, 65536, 65537]
MID_LENS = [300, 1000, 4095, 4096, 4097, 16383, 16384, 32767, 32768, 32769]

INT_EDGES = [
    0, 1, -1, 2, 3, 127, -127, 128, -128, 129, -129, 255, -255, 256, -256, 257, -257,
    32767, -32767, 32768, -32768, 32769, -32769, 65535, -65535, 65536, -65536, 65537,
    -196608, 2**24, -(2**24), 2**24 - 1, 2**31 - 2, 2**31 - 1, 2**31, -(2**31), -(2**31) - 1,
    2**32, -(2**32), 2**32 - 1, 2**63, -(2**63), 2**63 - 1, 2**64 + 1, -(2**64),
]

RESULT_CODES = [0, 1, 2, 3, 4, 5, 6, 7, 8, 10, 11, 12, 13, 14, 16, 17, 18, 19, 20, 21, 32, 33, 34, 36,
                48, 49, 50, 51, 52, 53, 54, 64, 65, 66, 67, 68, 69, 71, 80]
UNKNOWN_CODES = [9, 15, 22, 81, 255, 256, 4096, 2**31 - 1, -1, 118, 123, 128, 200, 32768, 65535, 2**31, 2**32 + 5, 2**40, -(2**31) - 1, 2**63,
                 # pairs that agree in their low 8/16/32/64 bits with each other or with a known code
                 90, 2**32 + 90, 2**64 + 90, 2**32 - 1, 2**32, 2**32 + 49, 256 + 49, 65536 + 32, -(2**32) + 9, 2**64 - 1, -256, 2**16 + 9]

TEXT_ALPHABET = (
    "abcdefghijklmnopqrstuvwxyzABCXYZ0123456789 ,=+<>#;\\\"'()*/-_.:@"
    "\x00\x01\x1f\x7f\u0080éÿĀΩ中文�￿\U0001f600\U0010ffff́​"
    "ﬁ²Ａ\u00a0Ⅳá"
    "%%{}\u212a\u017f\u0131\u0130\u0661"
    "\u07ff\u0800\ud7ff\ue000\ufeff\ufffe\U00010000\u2028\u2029\u0085\u200e\u202e\u01c5"
)


class Profile:
    def __init__(self, max_depth=6, allow_big=True, big_rate=200, max_list=300, fan=5):
        self.max_depth = max_depth
        self.allow_big = allow_big
        self.big_rate = big_rate
        self.max_list = max_list
        self.fan = fan


QUICK = Profile()
THOROUGH = Profile(max_depth=40, big_rate=120)
SMALL = Profile(max_depth=3, allow_big=False, max_list=4, fan=3)


def g_len(r: random.Random, p: Profile) -> int:
    x = r.random()
    if x < 0.70:
        return r.choice(SMALL_LENS)
    if x < 0.93:
        return r.randrange(0, 40)
    if not p.allow_big:
        return r.randrange(0, 60)
    k = r.randrange(p.big_rate)
    if k < 4:
        return r.choice(BIG_LENS)
    if k < 12:
        return r.choice(MID_LENS)
    return r.choice(EDGE_LENS)


_BER_LOOKALIKES: t.List[bytes] = []


def _ber_lookalikes() -> t.List[bytes]:
    """Octet strings that are themselves well-formed encodings (a whole LDAPMessage, a control value, a filter element,
    an INTEGER, a truncated header): opaque values must stay opaque."""
    if not _BER_LOOKALIKES:
        from vf.ref import rfc4511

        _BER_LOOKALIKES.extend([
            rfc4511.encode(("ExtendedRequest", 1, ("1.2.3", None), ())),
            rfc4511.encode(("SearchResultDone", 2, ((0, "", "", None),), ())),
            rfc4511.encode(("UnbindRequest", 3, (), ())),
            b"\x30\x05\x02\x01\x05\x04\x00", b"\x30\x84\x00\x00\x00\x05\x02\x01\x05\x04\x00", b"\x87\x02cn", b"\xa3\x07\x04\x02cn\x04\x01v", b"\x02\x01\x00", b"\x30\x80", b"\x30\x82",
            b"\x04\x81", b"\xa0\x00", b"\x01\x01\xff", b"(cn=a)", b"( 1.2.3 NAME 'x' )", b"1.2.840.113556.1.4.319", b"-1", b"0", b"4294967296",
        ])
    return _BER_LOOKALIKES


def g_bytes(r: random.Random, p: Profile, n: t.Optional[int] = None) -> bytes:
    if n is None and r.random() < 0.03:
        return r.choice(_ber_lookalikes())
    if n is None:
        n = g_len(r, p)
    if n == 0:
        return b""
    mode = r.randrange(4)
    if n > 300:
        # large: cheap fill with a random head/tail
        head = r.randbytes(8)
        return (head + bytes([r.randrange(256)]) * (n - 16) + r.randbytes(8))[:n].ljust(n, b"\x00")
    if mode == 0:
        return r.randbytes(n)
    if mode == 1:
        return bytes(r.choice(b"\x00\xff\x80\x7f\x30\x04\x02\x01()*\\ =") for _ in range(n))
    if mode == 2:
        return bytes(r.choice(b"abcdefgh01234 ") for _ in range(n))
    return r.randbytes(1) * n


def g_text(r: random.Random, p: Profile, n: t.Optional[int] = None) -> str:
    """Text whose UTF-8 encoding has exactly n bytes (n from the boundary-biased length generator)."""
    if n is None:
        n = g_len(r, p)
    if n == 0:
        return ""
    if n > 300:
        fill = r.choice(["a", "é", "中", "\U0001f600"])
        k = len(fill.encode("utf-8"))
        s = fill * (n // k)
        s += "x" * (n - len(s.encode("utf-8")))
        return s
    out = []
    left = n
    ascii_only = r.random() < 0.5
    while left > 0:
        ch = r.choice("abcdefgh=, 01") if ascii_only else r.choice(TEXT_ALPHABET)
        k = len(ch.encode("utf-8"))
        if k > left:
            ch = "x"
            k = 1
        out.append(ch)
        left -= k
    return "".join(out)


def g_int(r: random.Random, wide=True) -> int:
    x = r.random()
    if x < 0.45:
        return r.choice(INT_EDGES)
    if x < 0.65:
        return r.randrange(-300, 300)
    if x < 0.8:
        k = r.randrange(0, 80)
        return r.choice([1, -1]) * ((1 << k) + r.choice([-2, -1, 0, 1, 2]))
    if x < 0.9:
        return r.choice([1, -1]) * r.randrange(1, 1 << 16) * (1 << (8 * r.randrange(0, 6)))
    return r.randrange(-(1 << 80), 1 << 80) if wide else r.randrange(-(1 << 31), 1 << 31)


def g_msgid(r: random.Random) -> int:
    x = r.random()
    if x < 0.5:
        return r.randrange(0, 4)
    if x < 0.8:
        return r.choice([127, 128, 255, 256, 32767, 32768, 65535, 65536, 2**31 - 2, 2**31 - 1, 2**31, 2**32, 2**40])
    return g_int(r)


def g_listlen(r: random.Random, p: Profile) -> int:
    x = r.random()
    if x < 0.75:
        return r.choice([0, 1, 1, 2, 2, 3])
    if x < 0.95:
        return min(p.max_list, r.randrange(0, 12))
    return min(p.max_list, r.choice([10, 31, 32, 33, 63, 64, 65, 127, 128, 129, 255, 256, 257, 300]))


def g_opt(r: random.Random, gen):
    """absent / empty / non-empty handled by gen returning possibly-empty."""
    return None if r.random() < 0.3 else gen()


# ------------------------------------------------------------------ attribute descriptions (RFC 4512)

def g_descr(r: random.Random) -> str:
    n = r.choice([1, 1, 2, 3, 5, 8, 12])
    s = r.choice("abcdefghijklmnopqrstuvwxyzABCDEFXYZ")
    for _ in range(n - 1):
        s += r.choice("abcdefghijklmnopqrstuvwxyzABCXYZ0123456789-")
    return s


def g_number(r: random.Random) -> str:
    return r.choice(["0", "1", "2", "9", "10", "19", "100", "840", "113556", "4294967296", "2147483648", "18446744073709551616", "1" + "0" * 39, "65535", "16384", str(r.randrange(0, 5000))])


def g_numericoid(r: random.Random, min_arcs=2) -> str:
    k = r.choice([min_arcs, min_arcs, 3, 4, 7, 12])
    k = max(k, min_arcs)
    return ".".join(g_number(r) for _ in range(k))


def g_oid(r: random.Random) -> str:
    return g_descr(r) if r.random() < 0.6 else g_numericoid(r)


WELL_KNOWN_ATTRS = ["objectClass", "objectclass", "OBJECTCLASS", "ObjectClass", "cn", "CN", "Cn", "member", "MEMBER", "userPassword", "userpassword", "1.1", "*", "+"]


def g_attrdesc(r: random.Random) -> str:
    if r.random() < 0.08:
        return r.choice(WELL_KNOWN_ATTRS[:11])
    s = g_oid(r)
    for _ in range(r.choice([0, 0, 0, 1, 1, 2, 3])):
        s += ";" + "".join(r.choice("abcxyzABC0123456789-") for _ in range(r.choice([1, 2, 4, 8])))
    return s


# ------------------------------------------------------------------ controls, filters, messages

KNOWN_OIDS = [PAGED_OID, SHOWDEL_OID, SHOWDEACT_OID, NOTICE_OID, "1.3.6.1.4.1.1466.20037", "1.3.6.1.4.1.4203.1.11.3", "1.3.6.1.4.1.4203.1.11.1"]
_DIGIT_FAMILIES = [0xFF10, 0x0660, 0x06F0, 0x0966, 0x1D7CE]  # fullwidth, Arabic-Indic, extended Arabic-Indic, Devanagari, mathematical bold


def g_lookalike_oid(r: random.Random, base: t.Optional[str] = None) -> str:
    """A string that is NOT `base` but that a lenient comparison (numeric arcs through int(), strip(), casefold(),
    Unicode normalisation) would take for it. For the library these are just other, unknown names."""
    base = base or r.choice(KNOWN_OIDS)
    arcs = base.split(".")
    i = r.randrange(len(arcs))
    a = arcs[i]
    form = r.randrange(12)
    if form == 0:
        arcs[i] = "0" * r.choice([1, 2, 5]) + a
    elif form == 1:
        arcs[i] = "+" + a
    elif form == 2 and len(a) > 1:
        arcs[i] = a[0] + "_" + a[1:]
    elif form == 3:
        arcs[i] = r.choice([" ", "\t", "\n"]) + a
    elif form == 4:
        arcs[i] = a + r.choice([" ", "\n", "\r\n"])
    elif form == 5:
        fam = r.choice(_DIGIT_FAMILIES)
        arcs[i] = "".join(chr(fam + int(ch)) for ch in a)
    elif form == 6:
        fam = r.choice(_DIGIT_FAMILIES)
        k = r.randrange(len(a))
        arcs[i] = a[:k] + chr(fam + int(a[k])) + a[k + 1:]
    elif form == 7:
        return r.choice([" ", "\n", "\ufeff", "\u200b"]) + base
    elif form == 8:
        return base + r.choice([" ", "\n", "\x00", ".", ".0", "\u200b"])
    elif form == 9:
        return r.choice(["OID.", "oid.", "urn:oid:"]) + base
    elif form == 10:
        return base.replace(".", r.choice(["\uff0e", "\u3002", ". ", ".."]), 1)
    else:
        arcs[i] = a + ".0" if i == len(arcs) - 1 else str(int(a) + 2**32)
    out = ".".join(arcs)
    return out if out != base else base + " "


def g_unknown_oid(r: random.Random) -> str:
    if r.random() < 0.15:
        return g_lookalike_oid(r, r.choice([PAGED_OID, SHOWDEL_OID, SHOWDEACT_OID]))
    while True:
        o = r.choice(["1.2.3.4", "2.16.840.1.113730.3.4.2", "1.3.6.1.4.1.42.2.27.8.5.1", g_numericoid(r), "", "not-an-oid", "1.2.840.113556.1.4.3190"])
        if o not in (PAGED_OID, SHOWDEL_OID, SHOWDEACT_OID):
            return o


def g_control(r: random.Random, p: Profile) -> tuple:
    x = r.random()
    crit = r.random() < 0.5
    if x < 0.45:
        v = r.choice([None, b"", None]) if r.random() < 0.5 else g_bytes(r, p)
        return (g_unknown_oid(r), crit, v, None)
    if x < 0.75:
        return (PAGED_OID, crit, None, ("paged", g_int(r), g_bytes(r, p)))
    if x < 0.88:
        return (SHOWDEL_OID, crit, None, None)
    return (SHOWDEACT_OID, crit, None, None)


def g_controls(r: random.Random, p: Profile) -> tuple:
    k = r.choice([0, 0, 0, 1, 1, 2, 3])
    if r.random() < 0.01:
        k = r.choice([10, 31, 32, 40, 64, 128, 129])
    return tuple(g_control(r, p) for _ in range(k))


FILTER_LEAVES = ["eq", "ge", "le", "approx", "present", "sub", "ext"]


def g_filter(r: random.Random, p: Profile, depth=None, wire_domain=True) -> tuple:
    """wire_domain=True: any value the *types* admit (empty and/or, empty substrings parts, any strings).
    wire_domain=False is handled by gen.filters for the text-form properties."""
    if depth is None:
        depth = r.randrange(0, p.max_depth + 1)
    if depth > 0 and r.random() < 0.8:
        k = r.choice(["and", "or", "not", "and", "not"])
        if k == "not":
            return ("not", g_filter(r, p, depth - 1))
        fan = r.choice([0, 1, 1, 2, 2, 3, p.fan])
        if r.random() < 0.004:
            fan = r.choice([31, 32, 63, 64, 127, 128, 130, 256])
        kids = [g_filter(r, p, depth - 1 if i == 0 else r.randrange(0, depth)) for i in range(fan)]
        if kids and r.random() < 0.12:  # the same clause twice (adjacent or not): SET OF may hold equal members
            kids.insert(r.randrange(0, len(kids) + 1), r.choice(kids))
        return (k, tuple(kids))
    k = r.choice(FILTER_LEAVES)
    attr = g_attrdesc(r) if r.random() < 0.7 else g_text(r, p)
    if k in ("eq", "ge", "le", "approx"):
        return (k, attr, g_bytes(r, p))
    if k == "present":
        return ("present", attr)
    if k == "sub":
        ini = g_opt(r, lambda: g_bytes(r, p))
        fin = g_opt(r, lambda: g_bytes(r, p))
        anys = tuple(g_bytes(r, p) for _ in range(r.choice([0, 0, 1, 2, 3])))
        return ("sub", attr, ini, anys, fin)
    rule = g_opt(r, lambda: g_oid(r) if r.random() < 0.8 else g_text(r, p))
    at = g_opt(r, lambda: attr)
    return ("ext", rule, at, g_bytes(r, p), r.random() < 0.5)


def filter_depth(f) -> int:
    if f[0] in ("and", "or"):
        return 1 + max([filter_depth(x) for x in f[1]] or [0])
    if f[0] == "not":
        return 1 + filter_depth(f[1])
    return 0


def g_result(r: random.Random, p: Profile) -> tuple:
    x = r.random()
    # known codes, boundary unknown codes, and a long tail of distinct unknown codes (thousands per process)
    code = r.choice(RESULT_CODES) if x < 0.7 else r.choice(UNKNOWN_CODES) if x < 0.85 else r.randrange(124, 2**20)
    refs = None
    x = r.random()
    if x < 0.15:
        refs = ()
    elif x < 0.35:
        refs = tuple(g_text(r, p) for _ in range(g_listlen(r, p)))
    return (code, g_text(r, p), g_text(r, p), refs)


OPS = ["BindRequest", "BindResponse", "UnbindRequest", "SearchRequest", "SearchResultEntry",
       "SearchResultDone", "SearchResultReference", "ExtendedRequest", "ExtendedResponse"]


def g_body(r: random.Random, p: Profile, op: str):
    if op == "BindRequest":
        if r.random() < 0.5:
            auth = ("simple", g_text(r, p))
        else:
            auth = ("sasl", r.choice(["", "GSSAPI", "GSS-SPNEGO", "EXTERNAL", "DIGEST-MD5"]) if r.random() < 0.7 else g_text(r, p),
                    g_opt(r, lambda: g_bytes(r, p)))
        return (r.choice([3, 3, 2, 1, 127, 0, 128, -1, 300]) if r.random() < 0.9 else g_int(r), g_text(r, p), auth)
    if op == "BindResponse":
        return (g_result(r, p), g_opt(r, lambda: g_bytes(r, p)))
    if op == "UnbindRequest":
        return ()
    if op == "SearchRequest":
        return (
            g_text(r, p),
            r.choice([0, 1, 2]),
            r.choice([0, 1, 2, 3]),
            g_int(r) if r.random() < 0.6 else r.randrange(0, 1000),
            g_int(r) if r.random() < 0.6 else r.randrange(0, 1000),
            r.random() < 0.5,
            g_filter(r, p),
            tuple(g_text(r, p) if r.random() < 0.3 else r.choice(["*", "1.1", "+", "cn", "objectClass", g_attrdesc(r)]) for _ in range(g_listlen(r, p))),
        )
    if op == "SearchResultEntry":
        attrs = tuple(
            (g_attrdesc(r) if r.random() < 0.7 else g_text(r, p), tuple(g_bytes(r, p) for _ in range(g_listlen(r, p))))
            for _ in range(min(g_listlen(r, p), 20))
        )
        return (g_text(r, p), attrs)
    if op == "SearchResultDone":
        return (g_result(r, p),)
    if op == "SearchResultReference":
        return (tuple(g_text(r, p) for _ in range(g_listlen(r, p))),)
    if op == "ExtendedRequest":
        name = r.choice(["1.3.6.1.4.1.1466.20037", "1.3.6.1.4.1.4203.1.11.3", NOTICE_OID]) if r.random() < 0.6 else g_text(r, p)
        if r.random() < 0.1:
            name = g_lookalike_oid(r)
        return (name, g_opt(r, lambda: g_bytes(r, p)))
    if op == "ExtendedResponse":
        name = g_opt(r, lambda: r.choice(["1.3.6.1.4.1.1466.20037", NOTICE_OID, ""]) if r.random() < 0.6 else g_text(r, p))
        if r.random() < 0.1:
            name = g_lookalike_oid(r)
        return (g_result(r, p), name, g_opt(r, lambda: g_bytes(r, p)))
    raise ValueError(op)


def g_message(r: random.Random, p: Profile, op: t.Optional[str] = None, mid: t.Optional[int] = None) -> tuple:
    if op is None:
        op = r.choice(OPS)
    return (op, g_msgid(r) if mid is None else mid, g_body(r, p, op), g_controls(r, p))


# ------------------------------------------------------------------ feature extraction for gating / NT

def features(m) -> t.Set[str]:
    """Classes a message hits (used for gating counters and the non-trivial rule)."""
    out = {"op:" + m[0]}

    def lenclass(n):
        if n == 0:
            return "len:0"
        if n <= 127:
            return "len:<=127"
        if n <= 255:
            return "len:128-255"
        if n <= 65535:
            return "len:256-65535"
        return "len:>=65536"

    def walk(x):
        if isinstance(x, (bytes, str)):
            n = len(x.encode("utf-8")) if isinstance(x, str) else len(x)
            out.add(lenclass(n))
            if n == 0:
                out.add("empty-present")
            if isinstance(x, str) and any(ord(c) > 127 for c in x[:200]):
                out.add("non-ascii")
        elif isinstance(x, bool) or x is None:
            pass
        elif isinstance(x, int):
            if abs(x) >= 2**31 - 1:
                out.add("int:>=2^31-1")
            elif abs(x) >= 128:
                out.add("int:multi-octet")
            if x < 0:
                out.add("int:negative")
        elif isinstance(x, tuple):
            for y in x:
                walk(y)

    walk(m[1])
    walk(m[2])

    def fwalk(f, d):
        out.add("filter:" + f[0])
        if d >= 2:
            out.add("filter-depth>=2")
        if f[0] in ("and", "or"):
            if len(f[1]) == 0:
                out.add("filter:empty-set")
            for x in f[1]:
                fwalk(x, d + 1)
        elif f[0] == "not":
            fwalk(f[1], d + 1)

    if m[0] == "SearchRequest":
        fwalk(m[2][6], 0)
    if m[0] == "BindRequest":
        out.add("auth:" + m[2][2][0])
    for c in m[3]:
        walk(c[2])
        if c[3] is not None:
            out.add("control:paged")
            walk(c[3])
        elif c[0] in (SHOWDEL_OID, SHOWDEACT_OID):
            out.add("control:known-novalue")
        else:
            out.add("control:generic" + ("+crit" if c[1] else "-crit") + ("+value" if c[2] is not None else "-value"))
    if m[3]:
        out.add("has-controls")
    return out


def nontrivial(feats: t.Set[str]) -> bool:
    return bool(
        feats
        & {"has-controls", "filter-depth>=2", "len:128-255", "len:256-65535", "len:>=65536", "empty-present",
           "int:>=2^31-1", "int:multi-octet", "non-ascii"}
    )
