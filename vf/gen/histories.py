"""Generators of API-call histories over a joined client/server pair (C08, C10, C19) and the
bounded-exhaustive alphabets."""
from __future__ import annotations

import random
import typing as t

from vf.gen import values as gv
from vf.mon.driver import Driver
from vf.ref import rfc4511
from vf.ref.session_model import CLOSED, NOTICE_OID

GARBAGE = [b"\x04\x00", b"\xff\x01\x00", b"\x30\x03\x04\x01\x00", b"\x30\x80\x00\x00", b"\x30\x06\x02\x01\x01\x7f\x81\x00", b"\x05\x00",
           b"\x1f\x25\x00", b"\x30\x08\x02\x01\x01\x42\x00\x1f\x25\x00", b"\x30\x09\x02\x01\x01\x42\x00\x3f\x81\x00\x00"]
RES0 = (0, "", "", None)


def _ctl(r, p=0.15):
    return tuple(gv.g_control(r, gv.SMALL) for _ in range(r.choice([1, 2]))) if r.random() < p else None


def g_id(r, drv: Driver, retired: t.List[int]) -> int:
    ip = list(drv.model.ip)
    x = r.random()
    if ip and x < 0.55:
        return r.choice(ip)
    if retired and x < 0.75:
        return r.choice(retired)
    return r.choice([0, -1, 99, 2**31, 1, 2, 3])


def client_api_action(r, p=gv.SMALL):
    x = r.random()
    if x < 0.22:
        return ("bind_simple", r.choice([None, "", "cn=a", gv.g_text(r, p)]), r.choice([None, "", "pw", gv.g_text(r, p)]), _ctl(r))
    if x < 0.34:
        return ("bind_sasl", r.choice(["GSSAPI", "", "EXTERNAL", "gssapi", "Digest-md5", "x-\u00df\ufb01", "\u0131"]), r.choice([None, "cn=a"]), r.choice([None, b"", b"tok"]), _ctl(r))
    if x < 0.62:
        flt = gv.g_filter(r, p) if r.random() < 0.5 else None
        return ("search", r.choice([None, "", "dc=x"]), r.choice([0, 1, 2]), r.choice([0, 1, 2, 3]), r.choice([0, 5, 1000, 2**30, 2**30 + 1, 2**31 - 1, -1]), r.choice([0, 60, 2**30 + 7, 2**31 - 1, -2]),
                r.random() < 0.3, flt, r.choice([None, (), ("cn",), ("*", "+")]), _ctl(r))
    if x < 0.88:
        name = r.choice(["1.3.6.1.4.1.1466.20037", "1.2.3", NOTICE_OID])
        if r.random() < 0.08:
            name = gv.g_lookalike_oid(r, r.choice([NOTICE_OID, "1.3.6.1.4.1.1466.20037"]))
        return ("extended", name, r.choice([None, b"", b"\x01\x02"]), _ctl(r))
    return ("unbind",)


def server_api_action(r, drv: Driver, retired, p=gv.SMALL):
    mid = g_id(r, drv, retired)
    code = r.choice([0, 0, 14, 49, 2, 80, 118, 4096, 2**31, 123])
    md, dm = r.choice([None, "", "dc=x"]), r.choice([None, "", "msg"])
    x = r.random()
    if x < 0.25:
        return ("bind_response", mid, r.choice([None, b"", b"srv"]), code, md, dm, _ctl(r))
    if x < 0.45:
        name = r.choice([None, "1.2.3", NOTICE_OID, "1.3.6.1.4.1.1466", "20036", "1.3.6.1", NOTICE_OID + "0"]) if r.random() < 0.8 else NOTICE_OID
        if r.random() < 0.12:
            name = gv.g_lookalike_oid(r, NOTICE_OID)
        return ("extended_response", mid, name, r.choice([None, b"v"]), r.choice([0, 2, 52]), md, dm, _ctl(r))
    if x < 0.6:
        return ("entry", mid, "cn=e", r.choice([(("cn", (b"e",)),), (("cn", (b"e",)),), (("member", (b"a",)), ("MEMBER", (b"b",)), ("member", (b"a",))), (("cn", ()),), ()]), _ctl(r))
    if x < 0.7:
        return ("reference", mid, ("ldap://x/",), _ctl(r))
    if x < 0.92:
        return ("done", mid, r.choice([0, 4, 32]), md, dm, _ctl(r))
    return ("unbind",)


MS_ADTS_NOTICES = 0  # how many were crafted in this process (C08 gates on it)


def ms_adts_notice(mid, controls=()):
    """Active Directory's notice of disconnection: no responseName inside the ExtendedResponse, the OID in a [10] element at
    the end of the envelope - after the controls when there are any (round-18 change C08-25)."""
    from vf.ref import ber

    global MS_ADTS_NOTICES
    MS_ADTS_NOTICES += 1
    root = rfc4511.Enc().message(("ExtendedResponse", mid, ((52, "", "bye", None), None, None), tuple(controls)))
    root.children.append(ber.Node(ber.CTX, False, 10, content=NOTICE_OID.encode(), kind="TRAIL"))
    return rfc4511.ser(root)


def crafted_for_client(r, drv: Driver, retired):
    """Bytes a hostile/buggy server could send (reference-encoded, so independent of library packing)."""
    x = r.random()
    if x < 0.12:
        return r.choice(GARBAGE)
    mid = g_id(r, drv, retired)
    if x < 0.2:
        return rfc4511.encode(("SearchRequest", mid, ("", 2, 0, 0, 0, False, ("present", "cn"), ()), ()))
    if x < 0.26:
        if r.random() < 0.4:
            return ms_adts_notice(r.choice([0, mid]), r.choice([(), (("1.2.3.4", False, b"v", None),), (("1.2.3.4", True, None, None), ("2.5", False, b"", None))]))
        return rfc4511.encode(("ExtendedResponse", r.choice([0, mid]), ((52, "", "bye", None), NOTICE_OID, None), ()))
    if x < 0.3:
        return rfc4511.encode(("UnbindRequest", 0, (), ()))
    kind = r.choice(["BindResponse", "SearchResultEntry", "SearchResultReference", "SearchResultDone", "ExtendedResponse"])
    body = {
        "BindResponse": ((r.choice([0, 14, 49]), "", "", None), r.choice([None, b"s"])),
        "SearchResultEntry": ("cn=e", (("cn", (b"v",)),)),
        "SearchResultReference": (("ldap://y/",),),
        "SearchResultDone": ((r.choice([0, 4]), "", "", None),),
        "ExtendedResponse": ((0, "", "", None), r.choice([None, "1.2.3", "1.3.6.1.4.1.1466", "20036", "6.1.4", gv.g_lookalike_oid(r, NOTICE_OID)]), None),
    }[kind]
    out = rfc4511.encode((kind, mid, body, ()))
    if r.random() < 0.2:  # two messages in one delivery
        out += rfc4511.encode(("SearchResultDone", g_id(r, drv, retired), (RES0,), ()))
    return out


def crafted_for_server(r, drv: Driver, fresh_id: int):
    x = r.random()
    if r.random() < 0.06 and 0 not in drv.model.ip:
        fresh_id = 0  # a client that numbers its first request 0 (RFC 4511 reserves 0 for unsolicited notifications; the library does not refuse it)
    if x < 0.12:
        return r.choice(GARBAGE)
    if x < 0.2:
        return rfc4511.encode(("SearchResultDone", 1, (RES0,), ()))
    if x < 0.25:
        return rfc4511.encode(("ExtendedResponse", 0, ((52, "", "", None), NOTICE_OID, None), ()))
    if x < 0.32:
        return rfc4511.encode(("UnbindRequest", 0, (), ()))
    if x < 0.55:
        return rfc4511.encode(("BindRequest", fresh_id, (3, "cn=a", r.choice([("simple", "pw"), ("sasl", "GSSAPI", b"t")])), ()))
    if x < 0.8:
        return rfc4511.encode(("SearchRequest", fresh_id, ("dc=x", 2, 0, 0, 0, False, ("present", "cn"), ()), ()))
    return rfc4511.encode(("ExtendedRequest", fresh_id, ("1.2.3", None), ()))


class Pair:
    """A client and a server joined by two byte pipes, each side under a Driver."""

    def __init__(self, mode="drain"):
        self.c = Driver("client", mode)
        self.s = Driver("server", mode)
        self.c2s = b""
        self.s2c = b""
        self.fresh = 1000
        self.retired_s: t.List[int] = []
        self.retired_c: t.List[int] = []
        self.concrete: t.List[t.Tuple[str, tuple]] = []

    def do(self, side: str, action) -> t.List[t.Tuple[str, str]]:
        drv = self.c if side == "c" else self.s
        before = set(drv.model.ip)
        self.concrete.append((side, action))
        nb = len(drv.out_stream)
        vio = drv.step(action)
        new = drv.out_stream[nb:]
        if side == "c":
            self.c2s += new
        else:
            self.s2c += new
        gone = before - set(drv.model.ip)
        (self.retired_c if side == "c" else self.retired_s).extend(sorted(gone))
        return vio


def long_lived_prelude(pair: "Pair", n: int = 300):
    """Brings both sessions of a pair past message id 256 through n answered extended operations (ids beyond CPython's
    small-int cache; a long-lived connection)."""
    vio = []
    for _ in range(n):
        vio += pair.do("c", ("extended", "1.2.3", None, None))
        data, pair.c2s = pair.c2s, b""
        vio += pair.do("s", ("receive", data))
        mid = max(pair.s.model.ip) if pair.s.model.ip else 1
        vio += pair.do("s", ("extended_response", mid, None, None, 0, None, None, None))
        data, pair.s2c = pair.s2c, b""
        vio += pair.do("c", ("receive", data))
        if vio:
            break
    return vio


BAD = ["\udc80", "\ud800", "\udfff"]


def poison(r: random.Random, action: tuple) -> t.Optional[tuple]:
    """The same call with a lone surrogate in one text field: it cannot be encoded, so the call must fail having sent nothing."""
    a = list(action)
    k = a[0]
    bad = r.choice(BAD)
    if k == "bind_simple":
        i = r.choice([1, 2])
        a[i] = (a[i] or "") + bad
    elif k == "bind_sasl":
        i = r.choice([1, 2])
        a[i] = (a[i] or "") + bad
    elif k == "search":
        if r.random() < 0.5:
            a[1] = (a[1] or "dc=x") + bad
        else:
            a[8] = tuple(a[8] or ()) + ("cn", "a" + bad)
    elif k == "extended":
        a[1] = a[1] + bad
    elif k == "bind_response":
        i = r.choice([4, 5])
        a[i] = (a[i] or "") + bad
    elif k == "extended_response":
        i = r.choice([2, 5, 6])
        a[i] = (a[i] or "") + bad
    elif k == "entry":
        if r.random() < 0.5:
            a[2] = a[2] + bad
        else:
            a[3] = tuple(a[3]) + (("sn" + bad, (b"v",)),)
    elif k == "reference":
        a[2] = tuple(a[2]) + ("ldap://" + bad,)
    elif k == "done":
        i = r.choice([3, 4])
        a[i] = (a[i] or "") + bad
    else:
        return None
    return ("failing", tuple(a))


def random_step(r: random.Random, pair: Pair) -> t.Tuple[str, tuple]:
    """Choose the next concrete step for a joint history (includes calls after failures and after closure)."""
    x = r.random()
    if x < 0.30:
        a = client_api_action(r)
        if r.random() < 0.06:
            a = poison(r, a) or a
        return "c", a
    if x < 0.58:
        a = server_api_action(r, pair.s, pair.retired_s)
        if r.random() < 0.08:
            a = poison(r, a) or a
        return "s", a
    if x < 0.72:  # deliver real bytes client -> server
        if pair.c2s:
            k = len(pair.c2s) if r.random() < 0.7 else r.randrange(0, len(pair.c2s) + 1)
            data, pair.c2s = pair.c2s[:k], pair.c2s[k:]
            return "s", ("receive", data)
        return "s", ("receive", b"")
    if x < 0.86:
        if pair.s2c:
            k = len(pair.s2c) if r.random() < 0.7 else r.randrange(0, len(pair.s2c) + 1)
            data, pair.s2c = pair.s2c[:k], pair.s2c[k:]
            return "c", ("receive", data)
        return "c", ("receive", b"")
    # crafted deliveries only at a PDU boundary of the receiving side (otherwise they would splice into a half-delivered
    # PDU and the verdict would depend on how lenient the decoder is about the spliced bytes, not on the state machine)
    if x < 0.93:
        if pair.c.model.inbuf:
            data, pair.s2c = pair.s2c, b""
            return "c", ("receive", data)
        return "c", ("receive", crafted_for_client(r, pair.c, pair.retired_c))
    if pair.s.model.inbuf:
        data, pair.c2s = pair.c2s, b""
        return "s", ("receive", data)
    pair.fresh += 1
    return "s", ("receive", crafted_for_server(r, pair.s, pair.fresh))


# ---------------------------------------------------------------- bounded-exhaustive alphabets

CLIENT_LETTERS = ["bind_simple", "bind_sasl", "search", "extended", "unbind", "rx-bind-ok", "rx-bind-inprogress", "rx-entry", "rx-done",
                  "rx-extended", "rx-unknown-id", "rx-request", "rx-notice", "rx-garbage"]
SERVER_LETTERS = ["rx-bind", "rx-search", "rx-extended", "rx-unbind", "rx-response", "rx-garbage", "bind_response-ok", "bind_response-inprogress",
                  "entry", "done", "extended_response", "notice", "unbind", "bind_response-unknown"]


def _last(ip: dict, kind: str, default=1) -> int:
    ids = [i for i, k in ip.items() if k == kind]
    return max(ids) if ids else default


def client_letter(letter: str, drv: Driver) -> tuple:
    ip = drv.model.ip
    if letter == "bind_simple":
        return ("bind_simple", "cn=a", "pw", None)
    if letter == "bind_sasl":
        return ("bind_sasl", "GSSAPI", None, b"t", None)
    if letter == "search":
        return ("search", "dc=x", 2, 0, 0, 0, False, None, None, None)
    if letter == "extended":
        return ("extended", "1.2.3", None, None)
    if letter == "unbind":
        return ("unbind",)
    enc = rfc4511.encode
    if letter == "rx-bind-ok":
        return ("receive", enc(("BindResponse", _last(ip, "bind"), (RES0, None), ())))
    if letter == "rx-bind-inprogress":
        return ("receive", enc(("BindResponse", _last(ip, "bind"), ((14, "", "", None), b"s"), ())))
    if letter == "rx-entry":
        return ("receive", enc(("SearchResultEntry", _last(ip, "search"), ("cn=e", ()), ())))
    if letter == "rx-done":
        return ("receive", enc(("SearchResultDone", _last(ip, "search"), (RES0,), ())))
    if letter == "rx-extended":
        return ("receive", enc(("ExtendedResponse", _last(ip, "extended"), (RES0, None, None), ())))
    if letter == "rx-unknown-id":
        return ("receive", enc(("SearchResultDone", 99, (RES0,), ())))
    if letter == "rx-request":
        return ("receive", enc(("ExtendedRequest", 1, ("1.2.3", None), ())))
    if letter == "rx-notice":
        return ("receive", enc(("ExtendedResponse", 0, ((52, "", "", None), NOTICE_OID, None), ())))
    if letter == "rx-garbage":
        return ("receive", b"\x04\x00")
    raise ValueError(letter)


def server_letter(letter: str, drv: Driver, fresh: int) -> tuple:
    ip = drv.model.ip
    enc = rfc4511.encode
    if letter == "rx-bind":
        return ("receive", enc(("BindRequest", fresh, (3, "cn=a", ("simple", "pw")), ())))
    if letter == "rx-search":
        return ("receive", enc(("SearchRequest", fresh, ("dc=x", 2, 0, 0, 0, False, ("present", "cn"), ()), ())))
    if letter == "rx-extended":
        return ("receive", enc(("ExtendedRequest", fresh, ("1.2.3", None), ())))
    if letter == "rx-unbind":
        return ("receive", enc(("UnbindRequest", 0, (), ())))
    if letter == "rx-response":
        return ("receive", enc(("SearchResultDone", 1, (RES0,), ())))
    if letter == "rx-garbage":
        return ("receive", b"\x04\x00")
    if letter == "bind_response-ok":
        return ("bind_response", _last(ip, "bind"), None, 0, None, None, None)
    if letter == "bind_response-inprogress":
        return ("bind_response", _last(ip, "bind"), b"s", 14, None, None, None)
    if letter == "entry":
        return ("entry", _last(ip, "search"), "cn=e", (), None)
    if letter == "done":
        return ("done", _last(ip, "search"), 0, None, None, None)
    if letter == "extended_response":
        return ("extended_response", _last(ip, "extended"), None, None, 0, None, None, None)
    if letter == "notice":
        return ("extended_response", max(ip) if ip else 1, NOTICE_OID, None, 52, None, None, None)
    if letter == "unbind":
        return ("unbind",)
    if letter == "bind_response-unknown":
        return ("bind_response", 99, None, 0, None, None, None)
    raise ValueError(letter)
