"""Generators for the filter text properties (C13-C15): text-domain trees, hostile values, sentence
rendering with every free choice of RFC 4515, and single-character edits."""
from __future__ import annotations

import random
import typing as t

from vf.gen import values as gv
from vf.ref import rfc4515

CASE_POOL = ["cn", "CN", "Cn", "objectClass", "objectclass", "OBJECTCLASS", "sAMAccountName", "samaccountname", "o", "O", "cn;lang-en", "CN;LANG-EN", "cn;Lang-En"]
SPECIAL = b"()*\\\x00:=~<>!&| \x7f\x80\xff\n\t\r"
FILTER_TEXTS = [b")(uid=*", b"*)(objectClass=*", b"\\", b"\\2", b"\\2a", b"*", b"**", b"(", b")", b"a)(|(b=c", b":dn:", b":=", b" ", b"  x  "]


def g_value(r: random.Random, hostile=True, allow_empty=True) -> bytes:
    x = r.random()
    if x < 0.08 and allow_empty:
        return b""
    if x < 0.2:
        v = r.choice(FILTER_TEXTS)
        return v if (v or allow_empty) else b"x"
    n = r.choice([1, 1, 2, 3, 5, 8, 20])
    if r.random() < 0.05:
        n = r.choice([63, 64, 65, 100, 128, 300, 1100])
    if x < 0.55 and hostile:
        out = bytearray()
        for _ in range(n):
            y = r.random()
            if y < 0.45:
                out.append(r.choice(SPECIAL))
            elif y < 0.7:
                out.append(r.randrange(256))
            else:
                out += r.choice("abcXYZ09éΩ中\U0001f600").encode("utf-8")
        v = bytes(out)
    elif x < 0.8:
        v = gv.g_text(r, gv.SMALL, n).encode("utf-8")
    else:
        v = r.randbytes(n)
    # place a special at a component boundary
    if hostile and r.random() < 0.3:
        s = bytes([r.choice(SPECIAL)])
        v = s + v if r.random() < 0.5 else v + s
    return v if (v or allow_empty) else b"x"


def g_text_filter(r: random.Random, depth: int, fan: int = 4, hostile=True, dn_rule_rate=0.01) -> tuple:
    """A filter tree the text form can denote (DESIGN 7.5)."""
    if depth > 0 and r.random() < 0.75:
        k = r.choice(["and", "or", "not"])
        if k == "not":
            return ("not", g_text_filter(r, depth - 1, fan, hostile, dn_rule_rate))
        n = r.choice([1, 1, 2, 2, 3, fan])
        kids = [g_text_filter(r, depth - 1 if i == 0 else r.randrange(0, depth), fan, hostile, dn_rule_rate) for i in range(n)]
        if r.random() < 0.15:  # SET OF may hold equal members: repeat one (adjacent or not)
            kids.insert(r.randrange(0, len(kids) + 1), r.choice(kids))
        return (k, tuple(kids))
    k = r.choice(["eq", "eq", "ge", "le", "approx", "present", "sub", "sub", "ext", "ext"])
    attr = gv.g_attrdesc(r)
    if r.random() < 0.2:  # the same name in several spellings across leaves and parses (attribute descriptions are case-preserving values)
        attr = r.choice(CASE_POOL)
    if k in ("eq", "ge", "le", "approx"):
        v = g_value(r, hostile)
        return (k, attr, v)
    if k == "present":
        return ("present", attr)
    if k == "sub":
        ini = g_value(r, hostile, allow_empty=False) if r.random() < 0.6 else None
        fin = g_value(r, hostile, allow_empty=False) if r.random() < 0.6 else None
        anys = tuple(g_value(r, hostile, allow_empty=False) for _ in range(r.choice([0, 0, 1, 2, 3]) if r.random() < 0.985 else r.choice([255, 256, 257, 258, 300])))
        if ini is None and fin is None and not anys:
            anys = (g_value(r, hostile, allow_empty=False),)
        return ("sub", attr, ini, anys, fin)
    # extensible: attribute or rule present
    form = r.choice(["attr", "attr-rule", "rule"])
    rule = None
    at = None
    if form in ("attr", "attr-rule"):
        at = attr
    if form in ("attr-rule", "rule"):
        rule = gv.g_oid(r)
        if r.random() < 0.1:  # rule names that merely start with the letters of the dn flag
            rule = r.choice(["dnSubtreeMatch", "dnQualifierMatch", "dn1", "DNx", "dn-", "dnx", "Dn2"])
        if rule.lower() == "dn":  # only on purpose (below), never by chance
            rule = "dn-x"
        if r.random() < dn_rule_rate:
            rule = r.choice(["dn", "DN", "Dn"])
    return ("ext", rule, at, g_value(r, hostile), r.random() < 0.4)


def has_dn_rule(f) -> bool:
    if f[0] in ("and", "or"):
        return any(has_dn_rule(x) for x in f[1])
    if f[0] == "not":
        return has_dn_rule(f[1])
    return f[0] == "ext" and f[1] is not None and f[1].lower() == "dn"


def special_positions(f, acc: t.Set[str]):
    """Record which special octets occur at first/last position of a value (gating for C13)."""
    def val(v):
        if v:
            for pos, c in (("first", v[0]), ("last", v[-1])):
                if c in b"()*\\\x00" or c >= 0x80:
                    acc.add(f"{pos}:{c:02x}" if c < 0x80 else f"{pos}:hi")
    k = f[0]
    if k in ("and", "or"):
        for x in f[1]:
            special_positions(x, acc)
    elif k == "not":
        special_positions(f[1], acc)
    elif k in ("eq", "ge", "le", "approx"):
        val(f[2])
    elif k == "sub":
        for v in (f[2], *f[3], f[4]):
            val(v)
    elif k == "ext":
        val(f[3])


def value_has_special(f) -> bool:
    s: t.Set[str] = set()

    def anyspecial(v):
        return v is not None and any(c in b"()*\\\x00" or c >= 0x7F or c < 0x20 for c in v)

    k = f[0]
    if k in ("and", "or"):
        return any(value_has_special(x) for x in f[1])
    if k == "not":
        return value_has_special(f[1])
    if k in ("eq", "ge", "le", "approx"):
        return anyspecial(f[2])
    if k == "sub":
        return any(anyspecial(v) for v in (f[2], *f[3], f[4]))
    if k == "ext":
        return anyspecial(f[3])
    return False


# ---------------------------------------------------------------- sentence rendering with free choices

class Render:
    def __init__(self, r: random.Random, decoration=True, raw_rate=0.6):
        self.r = r
        self.deco = decoration
        self.raw_rate = raw_rate
        self.used: t.Set[str] = set()

    def sp(self, site: str) -> str:
        if self.deco and self.r.random() < 0.25:
            self.used.add("deco:" + site)
            return " " * self.r.choice([1, 1, 2, 3])
        return ""

    def value(self, v: bytes) -> str:
        """Each octet raw where the grammar allows it (by choice) or as \\HH with random hex case."""
        r = self.r
        out = []
        i = 0
        b = v
        while i < len(b):
            c = b[i]
            n = 1
            raw_ok = False
            if c < 0x80:
                raw_ok = c not in (0x00, 0x28, 0x29, 0x2A, 0x5C)
            else:
                n = rfc4515._utf8_len(b, i)
                raw_ok = n > 0
                if n == 0:
                    n = 1
            if raw_ok and r.random() < self.raw_rate:
                out.append(b[i : i + n].decode("utf-8"))
                if c < 0x20:
                    self.used.add("raw-control")
                elif c >= 0x80:
                    self.used.add("raw-utfmb")
                elif c == 0x20:
                    self.used.add("raw-space")
            else:
                for cc in b[i : i + n]:
                    h = f"{cc:02x}"
                    y = r.random()
                    if y < 0.35:
                        h = h.upper()
                        self.used.add("esc-upper")
                    elif y < 0.7:
                        self.used.add("esc-lower")
                    else:  # each hex digit in its own case (\\aF, \\Fa): RFC 4515 HEX is case-insensitive per digit
                        h = (h[0].upper() if r.random() < 0.5 else h[0]) + (h[1].upper() if r.random() < 0.5 else h[1])
                        if h[0].isalpha() and h[1].isalpha() and h[0].isupper() != h[1].isupper():
                            self.used.add("esc-mixed-case-pair")
                    out.append("\\" + h)
            i += n
        return "".join(out)

    def f(self, f, top=False) -> str:
        k = f[0]
        self.used.add("prod:" + k)
        if k in ("and", "or"):
            s = "(" + self.sp("after-lparen") + ("&" if k == "and" else "|") + self.sp("after-op")
            for i, x in enumerate(f[1]):
                s += self.f(x)
                s += self.sp("between-siblings" if i < len(f[1]) - 1 else "before-rparen")
            return s + ")"
        if k == "not":
            return "(" + self.sp("after-lparen") + "!" + self.sp("after-op") + self.f(f[1]) + self.sp("before-rparen") + ")"
        lead = "(" + self.sp("after-lparen")
        if k == "present":
            return lead + f[1] + "=*)"
        if k in ("eq", "ge", "le", "approx"):
            op = {"eq": "=", "ge": ">=", "le": "<=", "approx": "~="}[k]
            if not f[2]:
                self.used.add("empty-value")
            return lead + f[1] + op + self.value(f[2]) + ")"
        if k == "sub":
            _, attr, ini, anys, fin = f
            parts = [self.value(ini) if ini is not None else ""] + [self.value(a) for a in anys] + [self.value(fin) if fin is not None else ""]
            self.used.add("sub:" + ("i" if ini is not None else "-") + ("a" if anys else "-") + ("f" if fin is not None else "-"))
            return lead + attr + "=" + "*".join(parts) + ")"
        if k == "ext":
            _, rule, attr, val, dn = f
            s = attr or ""
            if dn:
                lit = self.r.choice([":dn", ":dn", ":DN", ":Dn", ":dN"])
                if lit != ":dn":
                    self.used.add("dn-literal-case")
                s += lit
            if rule is not None:
                s += ":" + rule
            self.used.add("ext:" + ("attr" if attr else "") + ("+dn" if dn else "") + ("+rule" if rule is not None else ""))
            return lead + s + ":=" + self.value(val) + ")"
        raise ValueError(k)

    def sentence(self, f) -> str:
        s = self.f(f, top=True)
        if self.deco and self.r.random() < 0.2:
            s = " " * self.r.choice([1, 3]) + s
            self.used.add("deco:leading")
        if self.deco and self.r.random() < 0.2:
            s = s + " " * self.r.choice([1, 2])
            self.used.add("deco:trailing")
        return s


# ---------------------------------------------------------------- single-character edits (C15)

EDIT_CHARS = list("()&|!=~<>:*\\;. -0a\n\r\t\x00'\"$^_%") + ["\x7f", "é", "\u212a", "\u017f", "\u0131", "\u0130", "\u0661", "\uff21", "\x0b", "\x0c", "\x1c", "\u00a0", "\u2028"]


def edits(sentence: str) -> t.Iterator[t.Tuple[str, str]]:
    """Every single-character deletion, and replacement/insertion with each structural character."""
    n = len(sentence)
    for i in range(n):
        yield "del", sentence[:i] + sentence[i + 1 :]
    for i in range(n + 1):
        for ch in EDIT_CHARS:
            yield "ins", sentence[:i] + ch + sentence[i:]
            if i < n and sentence[i] != ch:
                yield "rep", sentence[:i] + ch + sentence[i + 1 :]


STRUCT_ALPHABET = list("()&|!=~<>:*\\; ") + ["cn", "a", "1.2", "dn", "2a", "\\2a", "\\", "=*", ":=", "é", "\n", "\x00", "objectClass", ";x-1", "0", "."]


def g_random_text(r: random.Random) -> str:
    n = r.choice([0, 1, 2, 3, 5, 8, 13, 21, 40])
    return "".join(r.choice(STRUCT_ALPHABET) for _ in range(n))
