"""Generators for the schema properties (C16, C17): valid abstract definitions, rendering with every
spacing/list/escape choice of RFC 4512, conversion to/from the library's dataclasses."""
from __future__ import annotations

import random
import typing as t

from vf.gen import values as gv

KINDS = ["oc", "at", "dcr"]
SPECIAL_TEXT = ["\x00", "'", "\\", "|", "$", "(", ")", "{", "}", " ", "  ", "\n", "\\27", "\\5c", "\\5C", "\\7c", "\U0001f600", "é", "'(", ")'", " X-A 'b'", "#", "\t"]


def g_dtext(r: random.Random) -> str:
    """Non-empty description / extension text."""
    x = r.random()
    if x < 0.3:
        return r.choice(["desc", "A description", "RFC4512: object", "x"])
    if x < 0.34:  # many escapes in one string
        return "".join(r.choice(["'", "\\", "'\\", "a", " "]) for _ in range(r.choice([33, 40, 70, 130])))
    out = []
    for _ in range(r.choice([1, 2, 3, 5, 9])):
        y = r.random()
        if y < 0.5:
            out.append(r.choice(SPECIAL_TEXT))
        elif y < 0.8:
            out.append(r.choice("abcXYZ 09.,;:-_"))
        else:
            out.append(r.choice(gv.TEXT_ALPHABET))
    s = "".join(out)
    return s or "x"


def g_oidlist(r, allow_empty=True):
    n = r.choice([0, 0, 1, 1, 2, 3, 6]) if allow_empty else r.choice([1, 1, 2, 3])
    def one():
        x = r.random()
        if x < 0.12:
            return r.choice(["cn", "CN", "Cn", "sn", "SN", "top", "TOP", "Top", "objectClass", "objectclass", "msDS-Foo", "msds-foo"])
        if x < 0.19:
            return r.choice(["a-", "abc-", "a--b", "x-1-", "msDS-Foo--", "a-b-c"])
        if x < 0.23:  # descriptors spelled like clause keywords (any keystring is a descr)
            return r.choice(["MAY", "MUST", "NAME", "DESC", "SUP", "NOT", "AUX", "USAGE", "OBSOLETE", "SYNTAX", "ABSTRACT", "EQUALITY", "X-A", "may", "Must"])
        return gv.g_oid(r)

    return [one() for _ in range(n)]


def g_ext(r) -> t.Dict[str, t.List[str]]:
    out = {}
    for _ in range(r.choice([0, 0, 0, 1, 1, 2, 4])):
        name = "".join(r.choice("ABCXYZabc-_") for _ in range(r.choice([1, 2, 5, 9])))
        if name in out:
            continue
        out[name] = [g_dtext(r) for _ in range(r.choice([0, 1, 1, 1, 2, 3]))]
    return out


def g_def(r: random.Random, kind: t.Optional[str] = None) -> t.Tuple[str, dict]:
    kind = kind or r.choice(KINDS)
    d = {
        "oid": gv.g_numericoid(r),
        "names": [gv.g_descr(r) for _ in range(r.choice([0, 1, 1, 2, 4]))],
        "description": g_dtext(r) if r.random() < 0.6 else None,
        "obsolete": r.random() < 0.3,
    }
    if kind == "oc":
        d.update(super_types=g_oidlist(r), kind=r.choice(["ABSTRACT", "STRUCTURAL", "AUXILIARY"]), must=g_oidlist(r), may=g_oidlist(r))
    elif kind == "at":
        syn = gv.g_numericoid(r) if r.random() < 0.7 else None
        d.update(
            super_type=gv.g_oid(r) if r.random() < 0.3 else None,
            equality=gv.g_oid(r) if r.random() < 0.4 else None,
            ordering=gv.g_oid(r) if r.random() < 0.3 else None,
            substrings=gv.g_oid(r) if r.random() < 0.3 else None,
            syntax=syn,
            syntax_length=(r.choice([0, 1, 64, 32768, 2**31 - 1, 2**31, 2**32, 10**10 - 1, 10**10, 2**40, 2**64, 10**30, 10**100]) if syn and r.random() < 0.4 else None),
            single_value=r.random() < 0.4,
            collective=r.random() < 0.2,
            no_user_modification=r.random() < 0.3,
            usage=r.choice(["userApplications", "userApplications", "directoryOperation", "distributedOperation", "dSAOperation"]),
        )
    else:
        d.update(aux=g_oidlist(r), must=g_oidlist(r), may=g_oidlist(r), never=g_oidlist(r))
    d["extensions"] = g_ext(r)
    return kind, d


def _alpha(i: int) -> str:
    out = ""
    i += 1
    while i:
        i, k = divmod(i - 1, 26)
        out = "abcdefghijklmnopqrstuvwxyz"[k] + out
    return out


def many_def(seed: int, kind: str, n: int) -> dict:
    """A definition with n extensions (some with several values), n names and n members in its first OID list."""
    r = random.Random(seed * 1000003 + n)
    _, d = g_def(r, kind)
    d["names"] = ["n" + _alpha(i) for i in range(n)]
    d["extensions"] = {("E" + _alpha(i).upper() if i % 3 else "e_" + _alpha(i)): (["v%d" % i] if i % 5 else ["a", "b'c", "d\\e"][: 1 + i % 3]) for i in range(n)}
    lst = [("a" + _alpha(i)) if i % 2 else "1.2.%d" % i for i in range(n)]
    if kind == "oc":
        d["must"] = lst
    elif kind == "dcr":
        d["aux"] = lst
    return d


def to_obj(sl, kind: str, d: dict):
    S = sl.schema
    if kind == "oc":
        return S.ObjectClassDescription(oid=d["oid"], names=list(d["names"]), description=d["description"], obsolete=d["obsolete"],
                                        super_types=list(d["super_types"]), kind=S.ObjectClassKind(d["kind"]), must=list(d["must"]), may=list(d["may"]),
                                        extensions={k: list(v) for k, v in d["extensions"].items()})
    if kind == "at":
        return S.AttributeTypeDescription(oid=d["oid"], names=list(d["names"]), description=d["description"], obsolete=d["obsolete"],
                                          super_type=d["super_type"], equality=d["equality"], ordering=d["ordering"], substrings=d["substrings"],
                                          syntax=d["syntax"], syntax_length=d["syntax_length"], single_value=d["single_value"], collective=d["collective"],
                                          no_user_modification=d["no_user_modification"], usage=S.AttributeTypeUsage(d["usage"]),
                                          extensions={k: list(v) for k, v in d["extensions"].items()})
    return S.DITContentRuleDescription(oid=d["oid"], names=list(d["names"]), description=d["description"], obsolete=d["obsolete"], aux=list(d["aux"]),
                                       must=list(d["must"]), may=list(d["may"]), never=list(d["never"]), extensions={k: list(v) for k, v in d["extensions"].items()})


def from_obj(kind: str, o) -> dict:
    d = {"oid": o.oid, "names": list(o.names), "description": o.description, "obsolete": o.obsolete, "extensions": {k: list(v) for k, v in o.extensions.items()}}
    if kind == "oc":
        d.update(super_types=list(o.super_types), kind=o.kind.value, must=list(o.must), may=list(o.may))
    elif kind == "at":
        d.update(super_type=o.super_type, equality=o.equality, ordering=o.ordering, substrings=o.substrings, syntax=o.syntax, syntax_length=o.syntax_length,
                 single_value=o.single_value, collective=o.collective, no_user_modification=o.no_user_modification, usage=o.usage.value)
    else:
        d.update(aux=list(o.aux), must=list(o.must), may=list(o.may), never=list(o.never))
    return d


def cls_of(sl, kind):
    return {"oc": sl.schema.ObjectClassDescription, "at": sl.schema.AttributeTypeDescription, "dcr": sl.schema.DITContentRuleDescription}[kind]


# ---------------------------------------------------------------- rendering with free choices

class Render:
    def __init__(self, r: random.Random, canonical=False):
        self.r = r
        self.canon = canonical
        self.used: t.Set[str] = set()

    def SP(self, site):
        if self.canon:
            return " "
        n = self.r.choice([1, 1, 1, 2, 3])
        self.used.add(f"SP:{site}:{n}")
        return " " * n

    def WSP(self, site):
        if self.canon:
            return " "
        n = self.r.choice([0, 1, 1, 2, 3])
        self.used.add(f"WSP:{site}:{n}")
        return " " * n

    def qd(self, s: str) -> str:
        out = []
        for ch in s:
            if ch == "'":
                out.append("\\27")
                self.used.add("esc:27")
            elif ch == "\\":
                e = "\\5c" if (self.canon or self.r.random() < 0.5) else "\\5C"
                self.used.add("esc:" + e[1:])
                out.append(e)
            else:
                out.append(ch)
        return "'" + "".join(out) + "'"

    def oids(self, lst, site):
        if len(lst) == 1 and (self.canon or self.r.random() < 0.6):
            self.used.add("oids:single")
            return lst[0]
        self.used.add("oids:paren")
        s = "(" + self.WSP(site + ".open")
        for i, o in enumerate(lst):
            if i:
                s += self.WSP(site + ".pre$") + "$" + self.WSP(site + ".post$")
            s += o
        return s + self.WSP(site + ".close") + ")"

    def qlist(self, items, site, quote):
        if len(items) == 1 and (self.canon or self.r.random() < 0.6):
            self.used.add(site + ":single")
            return quote(items[0])
        self.used.add(site + ":paren")
        s = "(" + self.WSP(site + ".open")
        for i, it in enumerate(items):
            if i:
                s += self.SP(site + ".sep")
            s += quote(it)
        return s + self.WSP(site + ".close") + ")"

    def definition(self, kind: str, d: dict) -> str:
        s = "(" + self.WSP("start") + d["oid"]
        kw = lambda k: self.used.add("kw:" + k)
        if d["names"] or (not self.canon and self.r.random() < 0.05):
            kw("NAME")
            s += self.SP("NAME") + "NAME" + self.SP("NAME.v") + self.qlist(d["names"], "names", lambda n: "'" + n + "'")
        if d["description"] is not None:
            kw("DESC")
            s += self.SP("DESC") + "DESC" + self.SP("DESC.v") + self.qd(d["description"])
        if d["obsolete"]:
            kw("OBSOLETE")
            s += self.SP("OBSOLETE") + "OBSOLETE"
        if kind == "oc":
            if d["super_types"]:
                kw("SUP")
                s += self.SP("SUP") + "SUP" + self.SP("SUP.v") + self.oids(d["super_types"], "sup")
            if d["kind"] != "STRUCTURAL" or self.canon or self.r.random() < 0.7:
                kw(d["kind"])
                s += self.SP("kind") + d["kind"]
            for k, key in (("MUST", "must"), ("MAY", "may")):
                if d[key]:
                    kw(k)
                    s += self.SP(k) + k + self.SP(k + ".v") + self.oids(d[key], key)
        elif kind == "at":
            for k, key in (("SUP", "super_type"), ("EQUALITY", "equality"), ("ORDERING", "ordering"), ("SUBSTR", "substrings")):
                if d[key] is not None:
                    kw(k)
                    s += self.SP(k) + k + self.SP(k + ".v") + d[key]
            if d["syntax"] is not None:
                kw("SYNTAX")
                syn = d["syntax"] + ("{%d}" % d["syntax_length"] if d["syntax_length"] is not None else "")
                if not self.canon and self.r.random() < 0.3:
                    # the quotes Active Directory writes around the SYNTAX value (a pure wrapper, also around a {len} bound)
                    syn = "'" + syn + "'"
                    self.used.add("syntax:quoted" if d["syntax_length"] is None else "syntax:quoted-with-length")
                s += self.SP("SYNTAX") + "SYNTAX" + self.SP("SYNTAX.v") + syn
            for k, key in (("SINGLE-VALUE", "single_value"), ("COLLECTIVE", "collective"), ("NO-USER-MODIFICATION", "no_user_modification")):
                if d[key]:
                    kw(k)
                    s += self.SP(k) + k
            if d["usage"] != "userApplications" or (not self.canon and self.r.random() < 0.3):
                kw("USAGE")
                s += self.SP("USAGE") + "USAGE" + self.SP("USAGE.v") + d["usage"]
        else:
            for k, key in (("AUX", "aux"), ("MUST", "must"), ("MAY", "may"), ("NOT", "never")):
                if d[key]:
                    kw(k)
                    s += self.SP(k) + k + self.SP(k + ".v") + self.oids(d[key], key)
        for name, vals in d["extensions"].items():
            kw("X-")
            prefix = "X-" if (self.canon or self.r.random() < 0.85) else "x-"
            s += self.SP("ext") + prefix + name + self.SP("ext.v") + self.qlist(vals, "extvals", self.qd)
        return s + self.WSP("end") + ")"


def has_special(d: dict) -> bool:
    texts = ([d["description"]] if d["description"] else []) + [v for vs in d["extensions"].values() for v in vs]
    return any(any(ch in t_ for ch in "'\\|$(){}\n") or any(ord(ch) > 127 for ch in t_) for t_ in texts)
