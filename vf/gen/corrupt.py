"""Fault operators over BER encodings (DESIGN.md Appendix C) and chunking generators."""
from __future__ import annotations

import random
import typing as t

from vf.ref import ber

LEN_OPS = ["len-1", "len+1", "len+k", "len=0", "len=2^31", "len-127-octets", "len-indefinite", "len-nonminimal"]
TAG_OPS = ["tag-class", "tag-number", "tag-pc", "tag-hightag-form"]
CONTENT_OPS = ["content-truncate", "content-extend", "content-random", "content-empty", "int-giant"]
NODE_OPS = ["node-delete", "node-duplicate", "node-swap", "node-wrap", "cut-in-child-length"]
ALL_OPS = LEN_OPS + TAG_OPS + CONTENT_OPS + NODE_OPS


def node_type(n: ber.Node) -> str:
    if n.cls == ber.UNIV:
        return {1: "BOOLEAN", 2: "INTEGER", 4: "OCTETSTRING", 10: "ENUMERATED", 16: "SEQUENCE", 17: "SET"}.get(n.num, "UNIV-other")
    return ("APPL" if n.cls == ber.APPL else "CTX" if n.cls == ber.CTX else "PRIV") + ("-c" if n.pc else "-p")


def _walk(n, parent=None, idx=0, depth=0):
    yield n, parent, idx, depth
    if n.children:
        for i, c in enumerate(n.children):
            yield from _walk(c, n, i, depth + 1)


def nodes_of(data: bytes) -> t.Tuple[ber.Node, list]:
    root = ber.parse(data)
    return root, list(_walk(root))


class _Raw:
    """A node replaced by literal bytes when serialising."""

    def __init__(self, b):
        self.b = b


def _ser(n, repl: dict) -> bytes:
    if id(n) in repl:
        r = repl[id(n)]
        if isinstance(r, _Raw):
            return r.b
    if n.children is not None:
        body = b"".join(_ser(c, repl) for c in n.children)
    else:
        body = bytes(n.content or b"")
    return ber.ident_octets(n.cls, n.pc, n.num) + ber.length_octets(len(body)) + body


def apply(data: bytes, root: ber.Node, nodes: list, k: int, op: str, r: random.Random, fixup: bool) -> t.Optional[bytes]:
    """Apply operator op at node index k. fixup=True: ancestors' lengths are recomputed (the damage is
    local and the outer structure stays consistent); fixup=False: raw splice, ancestors keep their lengths."""
    n, parent, idx, depth = nodes[k]
    orig = data[n.start : n.end]
    ident = data[n.start : n.start + _ident_len(data, n.start)]
    content = data[n.hdr : n.end]
    L = len(content)
    new: t.Optional[bytes] = None
    if op == "len-1":
        if L == 0:
            return None
        new = ident + ber.length_octets(L - 1) + content
    elif op == "len+1":
        new = ident + ber.length_octets(L + 1) + content
    elif op == "len+k":
        new = ident + ber.length_octets(L + r.choice([2, 5, 127, 128, 300, 70000])) + content
    elif op == "len=0":
        if L == 0:
            return None
        new = ident + b"\x00" + content
    elif op == "len=2^31":
        new = ident + b"\x84\x80\x00\x00\x00" + content
    elif op == "len-127-octets":
        new = ident + b"\xff" + b"\x00" * 120 + L.to_bytes(7, "big") + content
    elif op == "len-indefinite":
        new = ident + b"\x80" + content + b"\x00\x00"
    elif op == "len-nonminimal":
        new = ident + ber.length_octets(L, r.choice([1, 2, 3, 4, 5])) + content
    elif op == "tag-class":
        new = bytes([(ident[0] & 0x3F) | (r.choice([c for c in range(4) if c != n.cls]) << 6)]) + ident[1:] + data[n.start + len(ident) : n.end]
    elif op == "tag-number":
        num = r.choice([0, 1, 2, 3, 4, 5, 7, 9, 10, 11, 16, 17, 19, 23, 24, 25, 30, 31, 37, 1024, 2**35, 2**63, 2**70 + 3, n.num + 1])
        if num == n.num:
            num += 1
        new = ber.ident_octets(n.cls, n.pc, num) + data[n.start + len(ident) : n.end]
    elif op == "tag-pc":
        new = bytes([ident[0] ^ 0x20]) + ident[1:] + data[n.start + len(ident) : n.end]
    elif op == "tag-hightag-form":
        # the same number in (possibly padded) high-tag-number form
        first = (n.cls << 6) | (0x20 if n.pc else 0) | 31
        body = ber.ident_octets(0, False, max(n.num, 31))[1:] if n.num >= 31 else bytes([n.num])
        pad = b"\x80" * r.choice([0, 1, 3])
        new = bytes([first]) + pad + body + data[n.start + len(ident) : n.end]
    elif op == "content-truncate":
        if L == 0:
            return None
        keep = r.randrange(0, L)
        new = ident + ber.length_octets(keep) + content[:keep]
    elif op == "content-extend":
        ext = content + r.randbytes(r.choice([1, 2, 7]))
        new = ident + ber.length_octets(len(ext)) + ext
    elif op == "content-random":
        rnd = r.randbytes(L if L else 3)
        new = ident + ber.length_octets(len(rnd)) + rnd
    elif op == "content-empty":
        if L == 0:
            return None
        new = ident + b"\x00"
    elif op == "int-giant":
        # an INTEGER / ENUMERATED / BOOLEAN of thousands of content octets (more decimal digits than CPython converts
        # between int and str by default): still one well-formed element
        if node_type(n) not in ("INTEGER", "ENUMERATED", "BOOLEAN"):
            return None
        big = bytes([r.choice([1, 0x7F, 0x80, 0xFF, 0x55])]) + r.randbytes(r.choice([1790, 2100, 4200]))
        new = ident + ber.length_octets(len(big)) + big
    elif op == "node-delete":
        if parent is None:
            return None
        new = b""
    elif op == "node-duplicate":
        new = orig + orig
    elif op == "node-swap":
        if parent is None or len(parent.children) < 2:
            return None
        j = (idx + 1) % len(parent.children)
        sib = parent.children[j]
        # swap by replacing both
        repl = {id(n): _Raw(data[sib.start : sib.end]), id(sib): _Raw(orig)}
        return _ser(root, repl)
    elif op == "node-wrap":
        new = b"\x30" + ber.length_octets(len(orig)) + orig
    elif op == "cut-in-child-length":
        # this node keeps a valid header but its content ends inside the (multi-octet) length octets of its last child
        if not n.children:
            return None
        last = n.children[-1]
        lc = data[last.hdr : last.end]
        lid = data[last.start : last.start + _ident_len(data, last.start)]
        lo = ber.length_octets(max(len(lc), 1), r.choice([2, 3, 4]))
        keep = r.randrange(1, len(lo))
        body = data[n.hdr : last.start] + lid + lo[:keep]
        new = ident + ber.length_octets(len(body)) + body
    else:
        raise ValueError(op)
    if fixup or op in NODE_OPS:
        return _ser(root, {id(n): _Raw(new)})
    return data[: n.start] + new + data[n.end :]


def _ident_len(data: bytes, pos: int) -> int:
    if data[pos] & 0x1F != 31:
        return 1
    p = pos + 1
    while data[p] & 0x80:
        p += 1
    return p + 1 - pos


# ---------------------------------------------------------------- nesting bombs

def nested_filter_search(depth: int, kind: str = "not") -> bytes:
    """A SearchRequest whose filter is `depth` levels of NOT (or single-child AND/OR) around a present filter."""
    inner = b"\x87\x02cn"
    tag = {"not": 0xA2, "and": 0xA0, "or": 0xA1}[kind]
    for _ in range(depth):
        inner = bytes([tag]) + ber.length_octets(len(inner)) + inner
    body = b"\x04\x00\x0a\x01\x02\x0a\x01\x00\x02\x01\x00\x02\x01\x00\x01\x01\x00" + inner + b"\x30\x00"
    op = b"\x63" + ber.length_octets(len(body)) + body
    env = b"\x02\x01\x01" + op
    return b"\x30" + ber.length_octets(len(env)) + env


def nested_sequences(depth: int, where: str = "envelope") -> bytes:
    inner = b""
    for _ in range(depth):
        inner = b"\x30" + ber.length_octets(len(inner)) + inner
    if where == "envelope":
        return inner or b"\x30\x00"
    # as a control list / trailing element of an otherwise valid unbind
    env = b"\x02\x01\x01\x42\x00" + (b"\xa0" + ber.length_octets(len(inner)) + inner if where == "controls" else b"\xbe" + ber.length_octets(len(inner)) + inner)
    return b"\x30" + ber.length_octets(len(env)) + env


# ---------------------------------------------------------------- chunkings

def g_chunking(r: random.Random, total: int, boundaries: t.Sequence[int] = ()) -> t.List[int]:
    """Return a sorted list of cut offsets (may contain duplicates = empty chunks)."""
    if total == 0:
        return []
    mode = r.randrange(7)
    if mode == 0:
        return []
    if mode == 1:
        return list(range(1, total)) if total <= 400 else sorted(r.randrange(0, total + 1) for _ in range(40))
    if mode == 2:
        return [r.randrange(0, total + 1)]
    if mode == 3 and boundaries:
        cuts = []
        for b in boundaries:
            cuts.append(max(0, min(total, b + r.choice([-1, 0, 1, 2, 3, 5]))))
        return sorted(cuts)
    k = r.choice([2, 3, 5, 9])
    cuts = sorted(r.randrange(0, total + 1) for _ in range(k))
    if mode == 5 and cuts:
        cuts.insert(0, cuts[0])  # an empty chunk
        cuts.append(cuts[-1])
    return sorted(cuts)


def split(data: bytes, cuts: t.Sequence[int]) -> t.List[bytes]:
    out = []
    prev = 0
    for c in cuts:
        out.append(data[prev:c])
        prev = c
    out.append(data[prev:])
    return out
