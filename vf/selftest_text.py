"""Self-test of the text-side reference parsers (RFC 4515 / RFC 4512)."""
from __future__ import annotations

from vf.common import rng_for
from vf.gen import filters as gf
from vf.ref import rfc4515


def run(fast: bool):
    P = rfc4515.parse
    # RFC 4515 section 4 examples
    assert P("(cn=Babs Jensen)") == ("eq", "cn", b"Babs Jensen")
    assert P("(!(cn=Tim Howes))") == ("not", ("eq", "cn", b"Tim Howes"))
    assert P("(&(objectClass=Person)(|(sn=Jensen)(cn=Babs J*)))") == ("and", (("eq", "objectClass", b"Person"), ("or", (("eq", "sn", b"Jensen"), ("sub", "cn", b"Babs J", (), None)))))
    assert P("(o=univ*of*mich*)") == ("sub", "o", b"univ", (b"of", b"mich"), None)
    assert P("(seeAlso=)") == ("eq", "seeAlso", b"")
    assert P("(cn:caseExactMatch:=Fred Flintstone)") == ("ext", "caseExactMatch", "cn", b"Fred Flintstone", False)
    assert P("(cn:=Betty Rubble)") == ("ext", None, "cn", b"Betty Rubble", False)
    assert P("(sn:dn:2.4.6.8.10:=Barney Rubble)") == ("ext", "2.4.6.8.10", "sn", b"Barney Rubble", True)
    assert P("(o:dn:=Ace Industry)") == ("ext", None, "o", b"Ace Industry", True)
    assert P("(:1.2.3:=Wilma Flintstone)") == ("ext", "1.2.3", None, b"Wilma Flintstone", False)
    assert P("(:DN:2.4.6.8.10:=Dino)") == ("ext", "2.4.6.8.10", None, b"Dino", True)
    assert P("(o=Parens R Us \\28for all your parenthetical needs\\29)")[2] == b"Parens R Us (for all your parenthetical needs)"
    assert P("(cn=*\\2A*)") == ("sub", "cn", None, (b"*",), None)
    assert P("(filename=C:\\5cMyFile)")[2] == b"C:\\MyFile"
    assert P("(bin=\\00\\00\\00\\04)")[2] == b"\x00\x00\x00\x04"
    assert P("(sn=Lu\\c4\\8di\\c4\\87)")[2] == "Lučić".encode()
    assert P("(1.3.6.1.4.1.1466.0=\\04\\02\\48\\69)")[1] == "1.3.6.1.4.1.1466.0"
    assert P("   (! (  foo=bar ) )  ") == ("not", ("eq", "foo", b"bar "))
    for bad in ["(cn=a", "cn=a", "(cn=a)(b=c)", "((cn=a))", "(&)", "(cn=a*b**c)", "(1=a)", "(cn\n=a)", "(cn=\\2)", "(cn=a(b)", "(cn;=a)", "(!(a=b)(c=d))"]:
        try:
            P(bad)
        except rfc4515.FilterRefError:
            continue
        raise AssertionError("reference parser accepted " + repr(bad))
    for i in range(150 if fast else 4000):
        r = rng_for("selftest-text", i)
        f = gf.g_text_filter(r, r.randrange(0, 5), dn_rule_rate=0)
        assert P(rfc4515.render(f)) == f, (f, rfc4515.render(f))
        s = gf.Render(r).sentence(f)
        assert P(s) == f, (f, s)
    try:
        from vf.selftest_schema import run as run_schema
    except ImportError:
        run_schema = None
    if run_schema:
        run_schema(fast)
