"""Self-test of the RFC 4512 reference parser against its own renderer and RFC examples."""
from vf.common import rng_for
from vf.gen import schema as gs
from vf.ref import rfc4512


def run(fast: bool):
    # RFC 4512 / 4519 examples
    d = rfc4512.parse_object_class("( 2.5.6.2 NAME 'country' SUP top STRUCTURAL MUST c MAY ( searchGuide $ description ) )")
    assert d["names"] == ["country"] and d["super_types"] == ["top"] and d["must"] == ["c"] and d["may"] == ["searchGuide", "description"]
    d = rfc4512.parse_attribute_type("( 2.5.4.3 NAME 'cn' SUP name )")
    assert d["super_type"] == "name" and d["syntax"] is None
    d = rfc4512.parse_attribute_type("( 2.5.4.41 NAME 'name' EQUALITY caseIgnoreMatch SUBSTR caseIgnoreSubstringsMatch SYNTAX 1.3.6.1.4.1.1466.115.121.1.15{32768} )")
    assert d["syntax"] == "1.3.6.1.4.1.1466.115.121.1.15" and d["syntax_length"] == 32768 and d["substrings"] == "caseIgnoreSubstringsMatch"
    d = rfc4512.parse_attribute_type("( 1.2.840.113556.1.4.1 NAME 'name' SYNTAX '1.3.6.1.4.1.1466.115.121.1.15' SINGLE-VALUE NO-USER-MODIFICATION )")
    assert d["syntax"] == "1.3.6.1.4.1.1466.115.121.1.15" and d["single_value"] and d["no_user_modification"]
    d = rfc4512.parse_dit_content_rule("( 2.5.6.4 DESC 'content rule for organization' NOT ( x121Address $ telexNumber ) )")
    assert d["never"] == ["x121Address", "telexNumber"]
    d = rfc4512.parse_object_class("(1.2 DESC 'it\\27s \\5c ok' X-ORIGIN 'RFC 4519' X-a-b ( 'v1'  'v2' ) )")
    assert d["description"] == "it's \\ ok" and d["extensions"] == {"ORIGIN": ["RFC 4519"], "a-b": ["v1", "v2"]}
    for bad in ["( 1 NAME 'a' )", "( 1.2 NAME 'a b' )", "( 1.2 DESC '' )", "( 1.2 DESC 'a'b' )", "( 1.2 MUST a$$b )", "( 1.2 SUP a STRUCTURAL MUST",
                "( 1.2 NAME'a' )", "( 1.02 )", "( 1.2 X- 'a' )", "( 1.2 DESC 'a\\2' )"]:
        try:
            rfc4512.parse_object_class(bad)
        except rfc4512.SchemaRefError:
            continue
        raise AssertionError("reference schema parser accepted " + repr(bad))
    for i in range(100 if fast else 3000):
        r = rng_for("selftest-schema", i)
        kind, d = gs.g_def(r)
        for canon in (True, False):
            s = gs.Render(r, canonical=canon).definition(kind, d)
            got = rfc4512.PARSERS[kind](s)
            assert got == d, (kind, s, got, d)
