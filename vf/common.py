"""Shared plumbing for all checks: paths, seeded RNG, accumulators, CPU watchdog."""
from __future__ import annotations

import collections
import contextlib
import hashlib
import json
import os
import random
import signal
import time
import sys
import typing as t

VERIF = os.path.dirname(os.path.dirname(os.path.abspath(__file__)))
REPO = os.environ.get("VERIF_REPO", "/repo")
REPO_SRC = os.path.join(REPO, "src")
PYTHON = os.environ.get("VERIF_PYTHON", "/venv/bin/python")
DEPS = os.path.join(VERIF, ".deps")

NOTICE_OID = "1.3.6.1.4.1.1466.20036"


def import_sansldap():
    """Import the repository's code from the current working tree (never a copy)."""
    if sys.path[0] != REPO_SRC:
        sys.path.insert(0, REPO_SRC)
    import sansldap  # noqa

    f = os.path.realpath(sansldap.__file__)
    if not f.startswith(os.path.realpath(REPO_SRC)):
        raise RuntimeError(f"sansldap imported from {f}, expected under {REPO_SRC}")
    return sansldap


def rng_for(*parts: t.Any) -> random.Random:
    return random.Random(":".join(str(p) for p in parts))


def h64(*parts: t.Any) -> bytes:
    m = hashlib.blake2b(digest_size=8)
    for p in parts:
        if isinstance(p, (bytes, bytearray, memoryview)):
            m.update(bytes(p))
        else:
            m.update(repr(p).encode("utf-8", "surrogatepass"))
        m.update(b"\x00")
    return m.digest()


class CpuTimeout(BaseException):
    """Raised by the ITIMER_VIRTUAL watchdog (BaseException so library code cannot swallow it)."""


def _on_vtalrm(signum, frame):
    raise CpuTimeout()


@contextlib.contextmanager
def cpu_limit(seconds: float):
    """Run the body under a process-CPU-time budget (immune to machine load)."""
    outer_left = signal.getitimer(signal.ITIMER_VIRTUAL)[0]  # an enclosing cpu_limit, if any
    t0 = time.process_time()
    old = signal.signal(signal.SIGVTALRM, _on_vtalrm)
    signal.setitimer(signal.ITIMER_VIRTUAL, seconds)
    try:
        yield
    finally:
        signal.setitimer(signal.ITIMER_VIRTUAL, 0)
        signal.signal(signal.SIGVTALRM, old)
        if outer_left > 0:  # re-arm the enclosing budget with what is left of it
            signal.setitimer(signal.ITIMER_VIRTUAL, max(outer_left - (time.process_time() - t0), 0.05))


def jsonable(o: t.Any, depth: int = 0) -> t.Any:
    """Best-effort conversion of a witness to JSON (bytes -> {'hex':..})."""
    if depth > 60:
        return "<deep>"
    if isinstance(o, (bytes, bytearray, memoryview)):
        b = bytes(o)
        if len(b) > 300000:
            return {"hex_head": b[:2048].hex(), "len": len(b), "blake2b": hashlib.blake2b(b, digest_size=16).hexdigest()}
        return {"hex": b.hex()}
    if isinstance(o, str):
        try:
            o.encode("utf-8")
            return o if len(o) <= 300000 else {"str_head": o[:4096], "len": len(o)}
        except UnicodeEncodeError:
            return {"str_surrogate_repr": ascii(o)}
    if isinstance(o, (int, float, bool)) or o is None:
        return o
    if isinstance(o, dict):
        return {str(k): jsonable(v, depth + 1) for k, v in o.items()}
    if isinstance(o, (list, tuple, set, frozenset)):
        return [jsonable(v, depth + 1) for v in o]
    return repr(o)


def unjson(o: t.Any) -> t.Any:
    """Inverse of jsonable for replay files (lists stay lists)."""
    if isinstance(o, dict):
        if set(o.keys()) == {"hex"}:
            return bytes.fromhex(o["hex"])
        return {k: unjson(v) for k, v in o.items()}
    if isinstance(o, list):
        return [unjson(v) for v in o]
    return o


class Acc:
    """Per-shard accumulator: counters, violations (first witness per mechanism key), samples."""

    MAX_NT = 300_000

    def __init__(self, prop: str):
        self.prop = prop
        self.evaluations = 0
        self.counters: t.Counter[str] = collections.Counter()
        self.violations: t.Dict[str, dict] = {}
        self.violation_counts: t.Counter[str] = collections.Counter()
        self.samples: t.List[t.Any] = []
        self.nt: t.Set[bytes] = set()
        self.nt_overflow = 0
        self.notes: t.List[str] = []
        self.extra: t.Dict[str, t.Any] = {}
        self.case_budget = 0.0  # CPU-seconds per case (set by the worker): a case that never returns becomes a violation

    def case(self, n: int = 1):
        self.evaluations += n
        if self.case_budget:
            signal.setitimer(signal.ITIMER_VIRTUAL, self.case_budget)

    def count(self, key: str, n: int = 1):
        self.counters[key] += n

    def nontrivial(self, *parts: t.Any):
        if len(self.nt) < self.MAX_NT:
            self.nt.add(h64(*parts))
        else:
            self.nt_overflow += 1

    def sample(self, s: t.Any, limit: int = 4):
        if len(self.samples) < limit:
            self.samples.append(jsonable(s))

    def violation(self, key: str, what: str, witness: t.Any):
        """key: mechanism bucket (stable, no random values); witness: literal replayable case."""
        self.violation_counts[key] += 1
        if key not in self.violations:
            self.violations[key] = {"key": key, "what": what, "witness": jsonable(witness), "hashseed": os.environ.get("PYTHONHASHSEED", "")}

    def dump(self) -> dict:
        return {
            "prop": self.prop,
            "evaluations": self.evaluations,
            "counters": dict(self.counters),
            "violations": list(self.violations.values()),
            "violation_counts": dict(self.violation_counts),
            "samples": self.samples,
            "nt_hex": b"".join(sorted(self.nt)).hex(),
            "nt_overflow": self.nt_overflow,
            "notes": self.notes,
            "extra": self.extra,
        }


class Ctx(t.NamedTuple):
    prop: str
    tier: str
    seed: int
    shard: int
    nshards: int

    def rng(self, *parts: t.Any) -> random.Random:
        return rng_for(self.prop, self.seed, self.shard, *parts)

    @property
    def thorough(self) -> bool:
        return self.tier == "thorough"

    def scale(self, quick: int, thorough: int) -> int:
        """Total case budget for this tier divided over the shards."""
        total = thorough if self.thorough else quick
        div = int(os.environ.get("VERIF_BUDGET_DIV", "1") or 1)  # used only by the seeded-change matrix (tools/matrix_run.sh)
        return max(1, total // max(1, div) // self.nshards)


def to_tuple(o: t.Any) -> t.Any:
    """lists -> tuples recursively (abstract values are tuples; JSON gives lists back)."""
    if isinstance(o, (list, tuple)):
        return tuple(to_tuple(x) for x in o)
    return o


def norm_msg(e: BaseException, n: int = 48) -> str:
    """Exception text reduced to a stable bucket (letters only, no values)."""
    import re as _re

    return type(e).__name__ + ":" + _re.sub(r"[^A-Za-z ]+", "", str(e))[:n].strip()


def load_json(path: str) -> t.Any:
    with open(path, "r", encoding="utf-8") as fh:
        return json.load(fh)


def call_with_headroom(h: int, fn):
    """Call fn() from a stack position that leaves about h Python frames before the interpreter's recursion limit (an
    application calling the library from deep inside its own recursion)."""
    import sys

    d = 0
    f = sys._getframe()
    while f is not None:
        d += 1
        f = f.f_back
    n = sys.getrecursionlimit() - d - h - 2

    def rec(k):
        if k <= 0:
            return fn()
        return rec(k - 1)

    return rec(n)
