"""abstract(obj): sansldap object -> abstract value (public dataclass fields only).
build(a): abstract value -> sansldap object. same(a, b): field-wise structural comparator.
"""
from __future__ import annotations

import dataclasses
import enum
import typing as t

from .common import import_sansldap

sl = import_sansldap()

PAGED_OID = "1.2.840.113556.1.4.319"
SHOWDEL_OID = "1.2.840.113556.1.4.417"
SHOWDEACT_OID = "1.2.840.113556.1.4.2065"
KNOWN_OIDS = (PAGED_OID, SHOWDEL_OID, SHOWDEACT_OID)


# RFC 4511 numbering of the enumerations, by the library's member names (an independent table: a member whose number
# drifts from the RFC is seen even if the library's encoder and decoder agree with each other)
SCOPE_NAMES = {0: "BASE", 1: "ONE_LEVEL", 2: "SUBTREE"}
DEREF_NAMES = {0: "NEVER", 1: "IN_SEARCHING", 2: "FINDING_BASE_OBJ", 3: "ALWAYS"}
RESULT_NAMES = {0: "SUCCESS", 1: "OPERATIONS_ERROR", 2: "PROTOCOL_ERROR", 3: "TIME_LIMIT_EXCEEDED", 4: "SIZE_LIMIT_EXCEEDED", 5: "COMPARE_FALSE", 6: "COMPARE_TRUE",
                7: "AUTH_METHOD_NOT_SUPPORTED", 8: "STRONG_AUTH_REQUIRED", 10: "REFERRAL", 11: "ADMIN_LIMIT_EXCEEDED", 12: "UNAVAILABLE_CRITICAL_EXTENSION",
                13: "CONFIDENTIALITY_REQUIRED", 14: "SASL_BIND_IN_PROGRESS", 16: "NO_SUCH_ATTRIBUTE", 17: "UNDEFINED_ATTRIBUTE_TYPE", 18: "INAPPROPRIATE_MATCHING",
                19: "CONSTRAINT_VIOLATION", 20: "ATTRIBUTE_OR_VALUE_EXISTS", 21: "INVALID_ATTRIBUTE_SYNTAX", 32: "NO_SUCH_OBJECT", 33: "ALIAS_PROBLEM",
                34: "INVALID_DN_SYNTAX", 36: "ALIAS_DEREFERENCING_PROBLEM", 48: "INAPPROPRIATE_AUTHENTICATION", 49: "INVALID_CREDENTIALS",
                50: "INSUFFICIENT_ACCESS_RIGHTS", 51: "BUSY", 52: "UNAVAILABLE", 53: "UNWILLING_TO_PERFORM", 54: "LOOP_DETECT", 64: "NAMING_VIOLATION",
                65: "OBJECT_CLASS_VIOLATION", 66: "NOT_ALLOWED_ON_NON_LEAF", 67: "NOT_ALLOWED_ON_RDN", 68: "ENTRY_ALREADY_EXISTS", 69: "OBJECT_CLASS_MODS_PROHIBITED",
                71: "AFFECTS_MULTIPLE_DSAS", 80: "OTHER"}


_REV: dict = {}


def enum_by_number(cls, names, number):
    """The member an application would write by name for this RFC number (falls back to the by-value lookup for numbers the
    RFC table does not name, or names a refactor may have changed)."""
    nm = names.get(number)
    mem = getattr(cls, nm, None) if nm else None
    return mem if mem is not None else cls(number)


def number_of(member, names):
    """RFC number of a decoded member: by its name when the RFC table knows the name, else its value."""
    rev = _REV.get(id(names))
    if rev is None:
        rev = _REV[id(names)] = {v: k for k, v in names.items()}
    k = rev.get(getattr(member, "name", None))
    return member.value if k is None else k


# ------------------------------------------------------------------ abstract(obj)

def a_control(c) -> tuple:
    if isinstance(c, sl.PagedResultControl):
        return (c.control_type, c.critical, None, ("paged", c.size, c.cookie))
    return (c.control_type, c.critical, c.value, None)


def a_filter(f) -> tuple:
    if isinstance(f, sl.FilterAnd):
        return ("and", tuple(a_filter(x) for x in f.filters))
    if isinstance(f, sl.FilterOr):
        return ("or", tuple(a_filter(x) for x in f.filters))
    if isinstance(f, sl.FilterNot):
        return ("not", a_filter(f.filter))
    if isinstance(f, sl.FilterEquality):
        return ("eq", f.attribute, f.value)
    if isinstance(f, sl.FilterGreaterOrEqual):
        return ("ge", f.attribute, f.value)
    if isinstance(f, sl.FilterLessOrEqual):
        return ("le", f.attribute, f.value)
    if isinstance(f, sl.FilterApproxMatch):
        return ("approx", f.attribute, f.value)
    if isinstance(f, sl.FilterPresent):
        return ("present", f.attribute)
    if isinstance(f, sl.FilterSubstrings):
        return ("sub", f.attribute, f.initial, tuple(f.any), f.final)
    if isinstance(f, sl.FilterExtensibleMatch):
        return ("ext", f.rule, f.attribute, f.value, f.dn_attributes)
    return ("custom", type(f).__name__, repr(f))


def a_result(r) -> tuple:
    return (number_of(r.result_code, RESULT_NAMES), r.matched_dn, r.diagnostics_message, None if r.referrals is None else tuple(r.referrals))


def a_auth(a) -> tuple:
    if isinstance(a, sl.SimpleCredential):
        return ("simple", a.password)
    if isinstance(a, sl.SaslCredential):
        return ("sasl", a.mechanism, a.credentials)
    return ("custom", type(a).__name__, repr(a))


def abstract(m) -> tuple:
    controls = tuple(a_control(c) for c in m.controls)
    n = type(m).__name__
    if isinstance(m, sl.BindRequest):
        body = (m.version, m.name, a_auth(m.authentication))
    elif isinstance(m, sl.BindResponse):
        body = (a_result(m.result), m.server_sasl_creds)
    elif isinstance(m, sl.UnbindRequest):
        body = ()
    elif isinstance(m, sl.SearchRequest):
        body = (
            m.base_object,
            number_of(m.scope, SCOPE_NAMES),
            number_of(m.deref_aliases, DEREF_NAMES),
            m.size_limit,
            m.time_limit,
            m.types_only,
            a_filter(m.filter),
            tuple(m.attributes),
        )
    elif isinstance(m, sl.SearchResultEntry):
        body = (m.object_name, tuple((a.name, tuple(a.values)) for a in m.attributes))
    elif isinstance(m, sl.SearchResultDone):
        body = (a_result(m.result),)
    elif isinstance(m, sl.SearchResultReference):
        body = (tuple(m.uris),)
    elif isinstance(m, sl.ExtendedRequest):
        body = (_plain(m.name), m.value)
    elif isinstance(m, sl.ExtendedResponse):
        body = (a_result(m.result), _plain(m.name), m.value)
    else:
        raise TypeError(n)
    return (n, m.message_id, body, controls)


# ------------------------------------------------------------------ build(a)

def b_control(c):
    oid, crit, value, parsed = c
    if parsed is not None:
        return sl.PagedResultControl(critical=crit, size=parsed[1], cookie=parsed[2])
    if oid == SHOWDEL_OID and value is None:
        return sl.ShowDeletedControl(critical=crit)
    if oid == SHOWDEACT_OID and value is None:
        return sl.ShowDeactivatedLinkControl(critical=crit)
    return sl.LDAPControl(oid, crit, value)


def fresh(x, as_bytearray=False):
    """A deep copy of an abstract value made of new bytes/str objects: objects built from it own their field values, so
    those die with the object (as in an application that builds a value, uses it and drops it) and their addresses get
    reused by later values."""
    if isinstance(x, tuple):
        return tuple(fresh(y, as_bytearray) for y in x)
    if isinstance(x, bytes):
        # as_bytearray: the caller holds its octets in a bytearray (a receive buffer, a struct.pack_into target):
        # bytes-like, compares equal to bytes, and accepted wherever the library encodes or renders octets
        return bytearray(x) if as_bytearray else bytes(bytearray(x))
    if isinstance(x, str) and not isinstance(x, enum.Enum):
        return (x + " ")[:-1]
    return x


def b_filter(f, share=None):
    """share: a dict - equal sub-trees become ONE object referenced from several places (an application that builds a
    clause once and uses it in two branches); None: every node is its own object."""
    if share is not None:
        if f in share:
            return share[f]
        obj = share[f] = _b_filter(f, share)
        return obj
    return _b_filter(f, None)


def _b_filter(f, share):
    k = f[0]
    if k == "and":
        return sl.FilterAnd([b_filter(x, share) for x in f[1]])
    if k == "or":
        return sl.FilterOr([b_filter(x, share) for x in f[1]])
    if k == "not":
        return sl.FilterNot(b_filter(f[1], share))
    if k == "eq":
        return sl.FilterEquality(f[1], f[2])
    if k == "ge":
        return sl.FilterGreaterOrEqual(f[1], f[2])
    if k == "le":
        return sl.FilterLessOrEqual(f[1], f[2])
    if k == "approx":
        return sl.FilterApproxMatch(f[1], f[2])
    if k == "present":
        return sl.FilterPresent(f[1])
    if k == "sub":
        return sl.FilterSubstrings(f[1], f[2], list(f[3]), f[4])
    if k == "ext":
        return sl.FilterExtensibleMatch(f[1], f[2], f[3], f[4])
    raise ValueError(k)


def b_result(r):
    code, matched, diag, refs = r
    return sl.LDAPResult(enum_by_number(sl.LDAPResultCode, RESULT_NAMES, code), matched, diag, None if refs is None else list(refs))


def b_auth(a):
    if a[0] == "simple":
        return sl.SimpleCredential(a[1])
    return sl.SaslCredential(a[1], a[2])


def build(a):
    op, mid, body, controls = a
    kw = dict(message_id=mid, controls=[b_control(c) for c in controls])
    if op == "BindRequest":
        return sl.BindRequest(version=body[0], name=body[1], authentication=b_auth(body[2]), **kw)
    if op == "BindResponse":
        return sl.BindResponse(result=b_result(body[0]), server_sasl_creds=body[1], **kw)
    if op == "UnbindRequest":
        return sl.UnbindRequest(**kw)
    if op == "SearchRequest":
        return sl.SearchRequest(
            base_object=body[0],
            scope=enum_by_number(sl.SearchScope, SCOPE_NAMES, body[1]),
            deref_aliases=enum_by_number(sl.DereferencingPolicy, DEREF_NAMES, body[2]),
            size_limit=body[3],
            time_limit=body[4],
            types_only=body[5],
            filter=b_filter(body[6], {} if (isinstance(mid, int) and mid % 3 == 0) else None),
            attributes=list(body[7]),
            **kw,
        )
    if op == "SearchResultEntry":
        return sl.SearchResultEntry(
            object_name=body[0], attributes=[sl.PartialAttribute(n, list(v)) for n, v in body[1]], **kw
        )
    if op == "SearchResultDone":
        return sl.SearchResultDone(result=b_result(body[0]), **kw)
    if op == "SearchResultReference":
        return sl.SearchResultReference(uris=list(body[0]), **kw)
    if op == "ExtendedRequest":
        return sl.ExtendedRequest(name=enum_name(body[0], mid), value=body[1], **kw)
    if op == "ExtendedResponse":
        return sl.ExtendedResponse(result=b_result(body[0]), name=enum_name(body[1], mid), value=body[2], **kw)
    raise ValueError(op)


def _plain(x):
    return x.value if (isinstance(x, enum.Enum) and isinstance(x, str)) else x


def enum_name(name, salt):
    """Callers pass extended-operation names either as plain strings or as the library's own str-valued enum members
    (as the repository's tests do): for a name the enum knows, odd `salt` selects the member."""
    if isinstance(name, str) and isinstance(salt, int) and salt % 2 == 1:
        for mem in sl.ExtendedOperations:
            if mem.value == name:
                return mem
    return name


# ------------------------------------------------------------------ same(a, b)

def _kind(x):
    if isinstance(x, bool):
        return "bool"
    if isinstance(x, enum.Enum):
        return "enum:" + type(x).__name__
    if isinstance(x, int):
        return "int"
    if isinstance(x, str):
        return "str"
    if isinstance(x, (bytes, bytearray)):
        return "bytes"
    if x is None:
        return "none"
    if isinstance(x, (list, tuple)):
        return "list"
    if isinstance(x, dict):
        return "dict"
    if dataclasses.is_dataclass(x):
        return "dc:" + type(x).__name__
    return "other:" + type(x).__name__


def same(a, b, path="", known_value_ok=None) -> t.Optional[str]:
    """Return None if a and b are the same value field-by-field, else a path describing the first
    difference. known_value_ok(control_a, control_b) licenses the raw-value exposure of known controls."""
    # a str-valued enum member (sansldap.ExtendedOperations) given where the field type is str stands for its value
    if isinstance(a, enum.Enum) and isinstance(a, str):
        a = a.value
    if isinstance(b, enum.Enum) and isinstance(b, str):
        b = b.value
    ka, kb = _kind(a), _kind(b)
    if ka != kb:
        return f"{path}: kind {ka} != {kb}"
    if ka.startswith("dc:"):
        for f in dataclasses.fields(a):
            va, vb = getattr(a, f.name), getattr(b, f.name)
            if (
                f.name == "value"
                and known_value_ok is not None
                and isinstance(a, sl.LDAPControl)
                and type(a) is not sl.LDAPControl
            ):
                if not known_value_ok(a, b):
                    return f"{path}.value: known control raw value {va!r} vs {vb!r} not licensed"
                continue
            d = same(va, vb, f"{path}.{f.name}", known_value_ok)
            if d:
                return d
        return None
    if ka == "list":
        if len(a) != len(b):
            return f"{path}: len {len(a)} != {len(b)}"
        for i, (x, y) in enumerate(zip(a, b)):
            d = same(x, y, f"{path}[{i}]", known_value_ok)
            if d:
                return d
        return None
    if ka == "dict":
        if set(a.keys()) != set(b.keys()) or len(a) != len(b):
            return f"{path}: keys differ"
        for k in a:
            d = same(a[k], b[k], f"{path}[{k!r}]", known_value_ok)
            if d:
                return d
        return None
    if ka.startswith("enum:"):
        return None if (a is b or a.value == b.value) else f"{path}: {a!r} != {b!r}"
    if a != b:
        sa, sb = repr(a), repr(b)
        return f"{path}: {sa[:60]} != {sb[:60]}"
    return None


def differs(a, b) -> bool:
    """True when a and b are not the same value: the library's own == says so, or a field-by-field walk over the public
    dataclass fields finds a difference (so an over-lenient __eq__ cannot hide one, and an over-strict one is noticed)."""
    if bool(a != b) or not bool(a == b):  # exceptions propagate exactly as a plain comparison's would
        return True
    try:
        return same(a, b) is not None
    except RecursionError:  # the walk needs more frames per level than ==: for very deep trees == alone decides
        return False
