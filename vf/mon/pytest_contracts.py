"""pytest plugin: runs the repository's own test-suite with the icontract post-conditions installed on the six
BER primitives (every integer / tag / length the tests push through the codec is checked against the arithmetic
oracle). Loaded with `-p vf.mon.pytest_contracts`; writes a JSON summary to $VF_CONTRACTS_OUT."""
import json
import os


def pytest_configure(config):
    from vf.common import import_sansldap

    import_sansldap()
    from vf.mon import contracts

    config._vf_contracts_info = contracts.install()


def pytest_sessionfinish(session, exitstatus):
    from vf.mon import contracts

    out = os.environ.get("VF_CONTRACTS_OUT")
    if out:
        with open(out, "w") as fh:
            json.dump({"evaluations": dict(contracts.evaluations), "broken": [[n, w] for n, w, _ in contracts.broken],
                       "exitstatus": int(exitstatus), "info": getattr(session.config, "_vf_contracts_info", {})}, fh)
