"""Boundary proxy + trace: drives a real session and the model in lock-step, one event per call.

Observation is public only: method calls, return values, exception classes, `.state`, `data_to_send`.
"""
from __future__ import annotations

import typing as t

from vf import absval as av
from vf.ref import rfc4511
from vf.ref.session_model import CLOSED, Expect, SessionModel

sl = av.sl


def _ctl(ctl):
    return [av.b_control(c) for c in ctl] if ctl else None


def _res(code, matched, diag):
    # the server API always passes referrals=[]
    return (code, matched or "", diag or "", ())


class Driver:
    """One session under observation. mode 'drain': the outgoing buffer is emptied after every call so the bytes a
    call queued are exactly what the drain returns. mode 'pending': drains happen only through explicit actions."""

    def __init__(self, role: str, mode: str = "drain", session=None):
        self.role = role
        self.mode = mode
        self.sess = session if session is not None else (sl.LDAPClient() if role == "client" else sl.LDAPServer())
        self.model = SessionModel(role)
        self.trace: t.List[dict] = []
        self.n = 0
        self.out_stream = b""  # everything drained so far
        self.expected_stream: t.List[tuple] = []  # abstract messages of accepted sends, in call order
        self.closed_seen = False
        self.ids_returned: t.List[int] = []
        self._shared_controls: list = []
        self.dead = False  # set when the session accepted a call the harness built to fail: model and session are out of step

    # ------------------------------------------------------------------ call execution
    def _ctl(self, ctl):
        """controls= argument of a call: None, or a list - on odd calls the SAME list object the previous call got,
        refilled in place (an application that keeps one controls list and updates it, e.g. the paged-results cookie)."""
        if not ctl:
            return None
        new = [av.b_control(c) for c in ctl]
        if self.n % 2:
            self._shared_controls[:] = new
            return self._shared_controls
        return new

    def _call(self, action):
        s = self.sess
        _ctl = self._ctl
        k = action[0]
        kw = (self.n % 4 == 1)  # every fourth call passes everything by keyword, every other fourth everything positionally
        pos = (self.n % 4 == 3)
        if k == "bind_simple":
            _, dn, pw, ctl = action
            if kw:
                return s.bind_simple(dn=dn, password=pw, controls=_ctl(ctl))
            if pos:
                return s.bind_simple(dn, pw, _ctl(ctl))
            return s.bind_simple(dn, pw, controls=_ctl(ctl))
        if k == "bind_sasl":
            _, mech, dn, cred, ctl = action
            if kw:
                return s.bind_sasl(mechanism=mech, dn=dn, cred=cred, controls=_ctl(ctl))
            if pos:
                return s.bind_sasl(mech, dn, cred, _ctl(ctl))
            return s.bind_sasl(mech, dn, cred, controls=_ctl(ctl))
        if k == "search":
            _, base, scope, deref, size, tm, to, flt, attrs, ctl = action
            if self.n % 2:  # the members an application writes by name; otherwise the plain ints (IntEnum members are ints)
                scope, deref = av.enum_by_number(sl.SearchScope, av.SCOPE_NAMES, scope), av.enum_by_number(sl.DereferencingPolicy, av.DEREF_NAMES, deref)
            f_obj = av.b_filter(flt) if flt is not None else None
            a_obj = list(attrs) if attrs is not None else None
            if kw:
                return s.search_request(base_object=base, scope=scope, dereferencing_policy=deref, size_limit=size, time_limit=tm, types_only=to, filter=f_obj,
                                        attributes=a_obj, controls=_ctl(ctl))
            if pos:
                return s.search_request(base, scope, deref, size, tm, to, f_obj, a_obj, _ctl(ctl))
            return s.search_request(base, scope, deref, size, tm, to, f_obj, a_obj, controls=_ctl(ctl))
        if k == "extended":
            _, name, value, ctl = action
            name = av.enum_name(name, self.n)
            if kw:
                return s.extended_request(name=name, value=value, controls=_ctl(ctl))
            if pos:
                return s.extended_request(name, value, _ctl(ctl))
            return s.extended_request(name, value, controls=_ctl(ctl))
        if k == "unbind":
            return s.unbind()
        if k in ("bind_response", "extended_response", "entry", "reference", "done"):
            # applications compute ids in many ways: never rely on the identity of an int object
            action = (action[0], int(str(action[1]))) + tuple(action[2:])
        rc = lambda code: av.enum_by_number(sl.LDAPResultCode, av.RESULT_NAMES, code)
        if k == "bind_response":
            _, mid, sasl, code, matched, diag, ctl = action
            if kw:
                return s.bind_response(message_id=mid, sasl_creds=sasl, result_code=rc(code), matched_dn=matched, diagnostics_message=diag, controls=_ctl(ctl))
            if pos:
                return s.bind_response(mid, sasl, rc(code), matched, diag, _ctl(ctl))
            return s.bind_response(mid, sasl_creds=sasl, result_code=rc(code), matched_dn=matched, diagnostics_message=diag, controls=_ctl(ctl))
        if k == "extended_response":
            _, mid, name, value, code, matched, diag, ctl = action
            name = av.enum_name(name, self.n)
            if kw:
                return s.extended_response(message_id=mid, name=name, value=value, result_code=rc(code), matched_dn=matched, diagnostics_message=diag, controls=_ctl(ctl))
            if pos:
                return s.extended_response(mid, name, value, rc(code), matched, diag, _ctl(ctl))
            return s.extended_response(mid, name=name, value=value, result_code=rc(code), matched_dn=matched, diagnostics_message=diag, controls=_ctl(ctl))
        if k == "entry":
            _, mid, name, attrs, ctl = action
            pa = [sl.PartialAttribute(n, list(v)) if i % 2 == 0 else sl.PartialAttribute(name=n, values=list(v)) for i, (n, v) in enumerate(attrs)]
            if kw:
                return s.search_result_entry(message_id=mid, object_name=name, attributes=pa, controls=_ctl(ctl))
            if pos:
                return s.search_result_entry(mid, name, pa, _ctl(ctl))
            return s.search_result_entry(mid, name, pa, controls=_ctl(ctl))
        if k == "reference":
            _, mid, uris, ctl = action
            if kw:
                return s.search_result_reference(message_id=mid, uris=list(uris), controls=_ctl(ctl))
            if pos:
                return s.search_result_reference(mid, list(uris), _ctl(ctl))
            return s.search_result_reference(mid, list(uris), controls=_ctl(ctl))
        if k == "done":
            _, mid, code, matched, diag, ctl = action
            if kw:
                return s.search_result_done(message_id=mid, result_code=rc(code), matched_dn=matched, diagnostics_message=diag, controls=_ctl(ctl))
            if pos:
                return s.search_result_done(mid, rc(code), matched, diag, _ctl(ctl))
            return s.search_result_done(mid, result_code=rc(code), matched_dn=matched, diagnostics_message=diag, controls=_ctl(ctl))
        if k == "receive":
            return s.receive(action[1])
        raise ValueError(k)

    def _model(self, action, observed_id=None) -> Expect:
        m = self.model
        k = action[0]
        ctl = lambda c: tuple(c or ())
        if k == "bind_simple":
            _, dn, pw, c = action
            return m.client_request("bind", lambda i: ("BindRequest", i, (3, dn or "", ("simple", pw or "")), ctl(c)), observed_id)
        if k == "bind_sasl":
            _, mech, dn, cred, c = action
            return m.client_request("bind", lambda i: ("BindRequest", i, (3, dn or "", ("sasl", mech, cred)), ctl(c)), observed_id)
        if k == "search":
            _, base, scope, deref, size, tm, to, flt, attrs, c = action
            f = flt if flt is not None else ("present", "objectClass")
            return m.client_request("search", lambda i: ("SearchRequest", i, (base or "", scope, deref, size, tm, to, f, tuple(attrs or ())), ctl(c)), observed_id)
        if k == "extended":
            _, name, value, c = action
            return m.client_request("extended", lambda i: ("ExtendedRequest", i, (name, value), ctl(c)), observed_id)
        if k == "unbind":
            return m.unbind()
        if k == "bind_response":
            _, mid, sasl, code, matched, diag, c = action
            return m.server_response("bind_response", mid, ("BindResponse", mid, (_res(code, matched, diag), sasl), ctl(c)))
        if k == "extended_response":
            _, mid, name, value, code, matched, diag, c = action
            return m.server_response("extended_response", mid, ("ExtendedResponse", mid, (_res(code, matched, diag), name, value), ctl(c)))
        if k == "entry":
            _, mid, name, attrs, c = action
            return m.server_response("entry", mid, ("SearchResultEntry", mid, (name, tuple((n, tuple(v)) for n, v in attrs)), ctl(c)))
        if k == "reference":
            _, mid, uris, c = action
            return m.server_response("reference", mid, ("SearchResultReference", mid, (tuple(uris),), ctl(c)))
        if k == "done":
            _, mid, code, matched, diag, c = action
            return m.server_response("done", mid, ("SearchResultDone", mid, (_res(code, matched, diag),), ctl(c)))
        if k == "receive":
            return m.receive(action[1])
        raise ValueError(k)

    # ------------------------------------------------------------------ one step
    def step(self, action) -> t.List[t.Tuple[str, str]]:
        """Execute action on the real session and the model; return violations [(key, what)]."""
        vio: t.List[t.Tuple[str, str]] = []
        self.n += 1
        k = action[0]
        s = self.sess
        if k == "drain":
            return self._drain_action(action[1])
        if self.dead:
            return vio
        if k == "failing":
            return self._failing_action(action[1])
        model_was_closed = self.model.state == CLOSED
        state_before = s.state.name
        pend_before = None
        if self.mode == "drain":
            left = s.data_to_send()
            if left:
                vio.append(("bytes-appeared-between-calls", f"{len(left)} bytes queued outside any call"))
                self.out_stream += left
        else:
            pend_before = self._pending_len()
        outcome, ret, exc = "ok", None, None
        try:
            ret = self._call(action)
        except sl.ProtocolError as e:
            outcome, exc = "ProtocolError", e
        except sl.LDAPError as e:
            outcome, exc = "LDAPError", e
        except Exception as e:  # anything else is never acceptable
            outcome, exc = "other:" + type(e).__name__, e
        exp = self._model(action, ret if (outcome == "ok" and self.role == "client" and k not in ("receive", "unbind")) else None)
        if exp.outcome == "ok" and exp.note and k not in ("receive",):
            vio.append((f"id-not-increasing:{self.role}.{k}", f"[{self.role} call #{self.n} {k}] {exp.note}"))
        state_after = s.state.name
        drained = b""
        if self.mode == "drain":
            drained = s.data_to_send()
            self.out_stream += drained
        ev = {"n": self.n, "side": self.role, "op": k, "outcome": outcome, "state_before": state_before, "state_after": state_after,
              "model_outcome": exp.outcome, "model_state": exp.state, "drained": drained.hex() if len(drained) < 200 else f"<{len(drained)} bytes>"}
        self.trace.append(ev)
        tag = f"{self.role}.{k}"
        where = f"[{self.role} call #{self.n} {k} in {state_before}]"
        # ---- outcome class
        if outcome.startswith("other:"):
            vio.append((f"unexpected-exception:{tag}:{outcome[6:]}", f"{where} raised {type(exc).__name__}: {exc}"))
        if k == "receive":
            if exp.outcome == "ProtocolError" and outcome == "ok":
                vio.append((f"accepted-but-model-rejects:{tag}:{exp.note.split(':')[0]}", f"{where} accepted input the documented rules reject ({exp.note})"))
            elif exp.outcome == "ok" and outcome != "ok":
                vio.append((f"rejected-but-model-accepts:{tag}", f"{where} raised {outcome} ({exc}) for input the documented rules accept"))
            elif exp.outcome == "ok":
                got = [av.abstract(m) for m in ret]
                if got != exp.returned:
                    vio.append((f"returned-differs:{tag}", f"{where} returned {str(got)[:200]} expected {str(exp.returned)[:200]}"))
        else:
            if exp.outcome == "LDAPError" and outcome == "ok":
                vio.append((f"accepted-but-model-rejects:{tag}:{exp.note}", f"{where} was accepted; documented rules refuse it ({exp.note})"))
            elif exp.outcome == "ok" and outcome != "ok":
                vio.append((f"rejected-but-model-accepts:{tag}", f"{where} raised {outcome}: {exc}"))
            elif exp.outcome == "LDAPError" and outcome == "ProtocolError":
                pass  # ProtocolError is an LDAPError
            if exp.outcome == "ok" and outcome == "ok" and exp.ret_id is not None and ret != exp.ret_id:
                vio.append((f"returned-id:{tag}", f"{where} returned id {ret!r}, expected {exp.ret_id}"))
            if outcome == "ok" and self.role == "client" and k != "unbind" and isinstance(ret, int):
                self.ids_returned.append(ret)
        # ---- state
        if state_after != exp.state and not (exp.alt_state and state_after == exp.alt_state and outcome != "ok"):
            rej = "rejected " if outcome != "ok" else ""
            vio.append((f"state:{tag}:{state_before}->{state_after}:expected-{exp.state}:{'rejected' if outcome != 'ok' else 'accepted'}",
                        f"{where} {rej}call left state {state_after}, documented machine says {exp.state}"))
        elif exp.alt_state and state_after == exp.alt_state and state_after != exp.state:
            ev["tolerated"] = "BEFORE_OPEN->OPENED on a rejected call (DESIGN 7.4)"
            self.model.state = exp.alt_state  # the two states are behaviourally identical; follow the session
        # ---- bytes
        if self.mode == "drain":
            if outcome != "ok" and k != "receive" and drained:
                vio.append((f"rejected-call-queued-bytes:{tag}", f"{where} was refused ({outcome}) but queued {len(drained)} bytes: {drained[:40].hex()}"))
            elif outcome == "ok" and k != "receive":
                vio += self._check_emitted(drained, exp.emitted, where, tag)
            elif k == "receive" and drained:
                vio.append((f"receive-queued-bytes:{tag}", f"{where} queued {len(drained)} bytes"))
        else:
            pend_after = self._pending_len()
            if outcome != "ok" and pend_before is not None and pend_after is not None and pend_after != pend_before:
                ev["pending_delta_on_rejected"] = pend_after - pend_before
        if outcome == "ok" and k != "receive" and exp.outcome == "ok" and exp.emitted is not None:
            self.expected_stream.append(exp.emitted)
        elif outcome == "ok" and k != "receive" and exp.outcome != "ok":
            # keep the byte-stream accounting aligned with what the library really did
            self.expected_stream.append(None)
        # ---- CLOSED finality (temporal monitor)
        if self.closed_seen or model_was_closed:
            if outcome == "ok":
                vio.append((f"closed-not-final:accepted:{tag}", f"{where} succeeded on a CLOSED session"))
            if state_after != "CLOSED":
                vio.append((f"closed-not-final:state:{tag}", f"{where} moved a CLOSED session to {state_after}"))
        if state_after == "CLOSED":
            self.closed_seen = True
        return vio

    def _failing_action(self, inner):
        """A send call that cannot be encoded (a lone surrogate in one text field): whatever exception class it raises
        (type-invalid input, DESIGN 7.10), it is a call that sent nothing - no bytes, no state change (BEFORE_OPEN ->
        OPENED tolerated, DESIGN 7.4), no change to the operations in progress (the model is not stepped)."""
        s = self.sess
        vio = []
        k = inner[0]
        state_before = s.state.name
        pend_before = None
        if self.mode == "drain":
            left = s.data_to_send()
            if left:
                vio.append(("bytes-appeared-between-calls", f"{len(left)} bytes queued outside any call"))
                self.out_stream += left
        else:
            pend_before = self._pending_len()
        try:
            self._call(inner)
        except Exception as e:
            outcome = type(e).__name__
        else:
            self.dead = True
            self.trace.append({"n": self.n, "side": self.role, "op": "failing:" + k, "outcome": "accepted", "state_before": state_before,
                               "state_after": s.state.name})
            return vio
        state_after = s.state.name
        tag = f"{self.role}.{k}"
        where = f"[{self.role} call #{self.n} {k} with unencodable text in {state_before}]"
        self.trace.append({"n": self.n, "side": self.role, "op": "failing:" + k, "outcome": "raised:" + outcome, "state_before": state_before,
                           "state_after": state_after})
        if state_after != state_before:
            if state_before == "BEFORE_OPEN" and state_after == "OPENED":
                if self.model.state == "BEFORE_OPEN":
                    self.model.state = "OPENED"
            else:
                vio.append((f"state:{tag}:{state_before}->{state_after}:after-failed-send", f"{where} raised {outcome}, sent nothing, yet moved the session to {state_after}"))
        if self.mode == "drain":
            drained = s.data_to_send()
            self.out_stream += drained
            if drained:
                vio.append((f"rejected-call-queued-bytes:{tag}:failed-send", f"{where} raised {outcome} but queued {len(drained)} bytes: {drained[:40].hex()}"))
                self.expected_stream.append(None)
        else:
            pend_after = self._pending_len()
            if pend_before is not None and pend_after is not None and pend_after != pend_before:
                vio.append((f"rejected-call-queued-bytes:{tag}:failed-send", f"{where} raised {outcome} but the pending output grew by {pend_after - pend_before} bytes"))
        if self.closed_seen and state_after != "CLOSED":
            vio.append((f"closed-not-final:state:{tag}", f"{where} moved a CLOSED session to {state_after}"))
        if state_after == "CLOSED":
            self.closed_seen = True
        return vio

    def _pending_len(self):
        # private diagnostic, used only while it still is a plain byte buffer (a refactor may rename or restructure it)
        buf = getattr(self.sess, "_outgoing_buffer", None)
        return len(buf) if isinstance(buf, (bytes, bytearray)) else None

    def _check_emitted(self, drained: bytes, emitted, where, tag):
        vio = []
        if emitted is None:
            if drained:
                vio.append((f"unexpected-bytes:{tag}", f"{where} queued {len(drained)} bytes, none expected"))
            return vio
        if not drained:
            return [(f"no-bytes:{tag}", f"{where} succeeded but queued nothing")]
        try:
            got = rfc4511.decode_strict(drained)
        except rfc4511.RefDecodeError as e:
            from vf.props.c03 import _only_unbind_constructed

            if emitted[0] == "UnbindRequest" and _only_unbind_constructed(drained, emitted):
                return vio  # C03's known finding; not this monitor's subject
            return [(f"emitted-undecodable:{tag}", f"{where} queued bytes the strict decoder rejects: {e}")]
        if got != emitted:
            part = "id" if got[1] != emitted[1] else "content"
            vio.append((f"emitted-differs:{tag}:{part}", f"{where} queued {str(got)[:200]} expected {str(emitted)[:200]}"))
        return vio

    def _drain_action(self, amount):
        s = self.sess
        pend = self._pending_len()
        state_before = s.state.name
        data = s.data_to_send(amount)
        vio = []
        self.out_stream += data
        if pend is not None:
            want = pend if amount is None else max(0, min(amount, pend))
            if amount is not None and amount < 0:
                want = None
            if want is not None and len(data) != want:
                vio.append(("drain-length", f"data_to_send({amount}) with {pend} pending returned {len(data)} bytes"))
        if not isinstance(data, bytes):
            vio.append(("drain-type", f"data_to_send returned {type(data).__name__}"))
        if s.state.name != state_before:
            vio.append(("drain-changed-state", f"data_to_send moved {state_before} -> {s.state.name}"))
        self.trace.append({"n": self.n, "side": self.role, "op": "drain", "amount": amount, "got": len(data)})
        return vio


def decode_out_stream(stream: bytes, expected: t.List[t.Optional[tuple]]):
    """Offline checker: the drained stream must decode (strict reference decoder) to exactly the expected
    abstract messages in order. Returns list of (key, what)."""
    from vf.ref import ber
    from vf.props.c03 import _only_unbind_constructed

    exp = [e for e in expected]
    try:
        fr = ber.frames(stream)
    except ber.BerError as e:
        return [("out-stream-unframed", f"drained stream is not a sequence of complete PDUs: {e}")]
    if len(fr) != len(exp):
        return [("out-stream-count", f"{len(fr)} PDUs drained, {len(exp)} send calls succeeded")]
    for i, (f, e) in enumerate(zip(fr, exp)):
        if e is None:
            return [("out-stream-unexpected", f"PDU {i} was queued by a call the documented rules refuse")]
        try:
            got = rfc4511.decode_strict(f)
        except rfc4511.RefDecodeError as ex:
            if e[0] == "UnbindRequest" and _only_unbind_constructed(f, e):
                continue
            return [("out-stream-undecodable", f"PDU {i}: {ex}")]
        if got != e:
            return [("out-stream-differs", f"PDU {i}: {str(got)[:160]} expected {str(e)[:160]}")]
    return []
