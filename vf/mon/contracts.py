"""Runtime contracts (icontract post-conditions) on sansldap.asn1's module-level BER primitives.

The functions are looked up as module globals at call time inside sansldap.asn1, so rebinding
`sansldap.asn1.<name>` makes every caller (ASN1Reader/ASN1Writer, message code, sessions, the
repository's own tests) go through the contract. Conditions *record* and return True: a raising
contract inside `receive` would be mistaken for library behaviour.
"""
from __future__ import annotations

import collections
import functools
import inspect
import typing as t

from vf.ref import ber

try:  # setup_cmd installs icontract into /verif/.deps; fall back to an equivalent plain wrapper
    import icontract  # type: ignore

    HAVE_ICONTRACT = True
except Exception:  # pragma: no cover
    icontract = None
    HAVE_ICONTRACT = False


class PostBroken(Exception):
    pass


evaluations: t.Counter[str] = collections.Counter()
broken: t.List[t.Tuple[str, str, dict]] = []  # (contract name, what, witness)
_installed = False


def _record(name, what, witness):
    if len(broken) < 50:
        broken.append((name, what, witness))


def take() -> t.List[t.Tuple[str, str, dict]]:
    out = list(broken)
    del broken[:]
    return out


def _tlv_expect(tag, content: bytes) -> bytes:
    return ber.ident_octets(int(tag.tag_class), bool(tag.is_constructed), int(tag.tag_number)) + ber.length_octets(len(content)) + content


# ---- conditions (argument names match the wrapped functions)

def pack_integer_is_minimal_twos_complement(value, tag, result):
    evaluations["_pack_asn1_integer"] += 1
    import sansldap.asn1 as A

    tg = tag or A.ASN1Tag.universal_tag(A.TypeTagNumber.INTEGER)
    exp = _tlv_expect(tg, ber.int_content(int(value)))
    if bytes(result) != exp:
        _record("_pack_asn1_integer", f"INTEGER {value}: wrote {bytes(result).hex()} expected {exp.hex()}", {"value": int(value)})
    return True


def read_integer_is_twos_complement_value(data, result):
    evaluations["_read_asn1_integer"] += 1
    raw = bytes(data)
    try:
        cls, pc, num, cs, ln = ber.read_header(raw, 0, len(raw))
        content = raw[cs : cs + ln]
        exp = (int.from_bytes(content, "big", signed=True), cs + ln)
    except Exception:
        return True  # malformed input: not this contract's business
    if len(content) == ln and ln > 0 and tuple(result) != exp:
        _record("_read_asn1_integer", f"content {content.hex()}: read {result} expected {exp}", {"data": raw[: cs + ln]})
    return True


def pack_tlv_matches_x690(tag_class, constructed, tag_number, data, result):
    evaluations["_pack_asn1"] += 1
    exp = ber.ident_octets(int(tag_class), bool(constructed), int(tag_number)) + ber.length_octets(len(data)) + bytes(data)
    if bytes(result) != exp:
        _record("_pack_asn1", f"TLV header {bytes(result)[:12].hex()} expected {exp[:12].hex()}",
                {"tag_class": int(tag_class), "constructed": bool(constructed), "tag_number": int(tag_number), "len": len(data)})
    return True


def read_header_matches_x690(data, result):
    evaluations["_read_asn1_header"] += 1
    raw = bytes(data[:64]) if len(data) > 64 else bytes(data)
    try:
        cls, pc, num, cs, ln = ber.read_header(raw, 0, len(raw))
    except Exception:
        return True
    got = (int(result.tag.tag_class), bool(result.tag.is_constructed), int(result.tag.tag_number), result.tag_length, result.length)
    if got != (cls, pc, num, cs, ln):
        _record("_read_asn1_header", f"header {raw[:cs].hex()}: read {got} expected {(cls, pc, num, cs, ln)}", {"data": raw[:cs]})
    return True


def pack_octet_number_is_base128(num, result):
    evaluations["_pack_asn1_octet_number"] += 1
    exp = ber.ident_octets(0, False, int(num))[1:] if num >= 31 else None
    if exp is None:
        # base-128 of any number: derive from the formula directly
        n = int(num)
        out = [n & 0x7F]
        n >>= 7
        while n:
            out.append(0x80 | (n & 0x7F))
            n >>= 7
        exp = bytes(reversed(out)) if num else b""
    if bytes(result) != exp:
        _record("_pack_asn1_octet_number", f"{num}: wrote {bytes(result).hex()} expected {exp.hex()}", {"num": int(num)})
    return True


def unpack_octet_number_is_base128(data, result):
    evaluations["_unpack_asn1_octet_number"] += 1
    raw = bytes(data[:40])
    v = 0
    k = 0
    for b in raw:
        k += 1
        v = (v << 7) | (b & 0x7F)
        if not b & 0x80:
            break
    else:
        return True
    if tuple(result) != (v, k):
        _record("_unpack_asn1_octet_number", f"{raw[:k].hex()}: read {result} expected {(v, k)}", {"data": raw[:k]})
    return True


CONTRACTS = {
    "_pack_asn1_integer": pack_integer_is_minimal_twos_complement,
    "_read_asn1_integer": read_integer_is_twos_complement_value,
    "_pack_asn1": pack_tlv_matches_x690,
    "_read_asn1_header": read_header_matches_x690,
    "_pack_asn1_octet_number": pack_octet_number_is_base128,
    "_unpack_asn1_octet_number": unpack_octet_number_is_base128,
}


def _plain_ensure(cond, func):
    sig = inspect.signature(func)
    want = [p for p in inspect.signature(cond).parameters if p != "result"]

    @functools.wraps(func)
    def wrapper(*a, **kw):
        result = func(*a, **kw)
        ba = sig.bind(*a, **kw)
        ba.apply_defaults()
        cond(**{k: ba.arguments[k] for k in want}, result=result)
        return result

    return wrapper


def install(use_icontract: bool = True) -> dict:
    """Rebind the six primitives in sansldap.asn1 to contract-carrying wrappers. Idempotent."""
    global _installed
    import sansldap.asn1 as A

    info = {"icontract": bool(HAVE_ICONTRACT and use_icontract), "wrapped": [], "missing": []}
    if _installed:
        return info
    for name, cond in CONTRACTS.items():
        f = getattr(A, name, None)
        if f is None:
            info["missing"].append(name)  # renamed by a refactor: diagnostics vanish, verdicts do not change
            continue
        if HAVE_ICONTRACT and use_icontract:
            g = icontract.ensure(cond, error=PostBroken)(f)
        else:
            g = _plain_ensure(cond, f)
        setattr(A, name, g)
        info["wrapped"].append(name)
    _installed = True
    return info
