"""Worker: runs one shard of one property's workload in a fresh process and writes a JSON result."""
from __future__ import annotations

import importlib
import json
import os
import sys
import time
import traceback


def main(argv):
    prop, tier, seed, shard, nshards, out = argv[1], argv[2], int(argv[3]), int(argv[4]), int(argv[5]), argv[6]
    from vf.common import Acc, Ctx, import_sansldap

    import_sansldap()
    mod = importlib.import_module("vf.props." + prop.lower())
    ctx = Ctx(prop, tier, seed, shard, nshards)
    acc = Acc(prop)
    t0 = time.time()
    status = "ok"
    try:
        mod.run_shard(ctx, acc)
    except BaseException:
        status = "internal_error"
        acc.notes.append(traceback.format_exc())
    res = acc.dump()
    res["status"] = status
    res["wall_s"] = time.time() - t0
    res["recursion_limit"] = sys.getrecursionlimit()
    tmp = out + ".tmp"
    with open(tmp, "w") as fh:
        json.dump(res, fh)
    os.replace(tmp, out)
    return 0 if status == "ok" else 3


if __name__ == "__main__":
    sys.exit(main(sys.argv))
