"""Worker: runs one shard of one property's workload in a fresh process and writes a JSON result."""
from __future__ import annotations

import importlib
import json
import os
import sys
import time
import traceback


def main(argv):
    prop, tier, seed, shard, nshards, out = argv[1], argv[2], int(argv[3]), int(argv[4]), int(argv[5]), argv[6]
    import signal

    from vf.common import Acc, CpuTimeout, Ctx, _on_vtalrm, import_sansldap

    import_sansldap()
    mod = importlib.import_module("vf.props." + prop.lower())
    ctx = Ctx(prop, tier, seed, shard, nshards)
    acc = Acc(prop)
    t0 = time.time()
    status = "ok"
    # Per-case CPU watchdog (re-armed by Acc.case()): library code that never returns - in a check that has no finer
    # watchdog of its own - ends the shard with a violation instead of a wall-clock shard timeout (= inconclusive).
    budget = float(os.environ.get("VERIF_CASE_CPU", "300" if tier == "quick" else "900"))
    signal.signal(signal.SIGVTALRM, _on_vtalrm)
    acc.case_budget = budget
    try:
        mod.run_shard(ctx, acc)
    except CpuTimeout:
        tb = traceback.format_exc()
        frames = [l.strip() for l in tb.splitlines() if "/sansldap/" in l][-3:]
        acc.case_budget = 0.0
        acc.violation("case-did-not-return", f"case #{acc.evaluations} of shard {shard}/{nshards} (seed {seed}, {tier}) did not return within {budget:.0f} CPU-seconds; "
                      f"innermost library frames: {' | '.join(frames) or 'none (harness code)'}", {"shard_case": [tier, seed, shard, nshards, acc.evaluations]})
    except BaseException:
        status = "internal_error"
        acc.notes.append(traceback.format_exc())
    finally:
        acc.case_budget = 0.0
        signal.setitimer(signal.ITIMER_VIRTUAL, 0)
    res = acc.dump()
    res["status"] = status
    res["wall_s"] = time.time() - t0
    res["recursion_limit"] = sys.getrecursionlimit()
    tmp = out + ".tmp"
    with open(tmp, "w") as fh:
        json.dump(res, fh)
    os.replace(tmp, out)
    return 0 if status == "ok" else 3


if __name__ == "__main__":
    sys.exit(main(sys.argv))
