"""Workload dimensions added while validating the checks against seeded changes (DESIGN.md 11.4); appended to the
level text in MANIFEST.json and to the coverage rule in every evidence file."""
ADDENDA = {  # workload dimensions added while validating against seeded changes (DESIGN 11.4)
    "C01": " Also: shared and non-default-encoding PackingOptions, objects owning transient field values, edits after packing, look-alike spellings of known OIDs, the library's str-enum members as names, unknown result codes congruent modulo 2^8..2^64.",
    "C02": " Also: signed/char-item memoryviews and slices of larger buffers, the caller editing returned messages, a bystander session, streams containing one message that must be refused (the verdict may not depend on the cut), padded length forms up to 120 octets.",
    "C03": " Also: look-alike OIDs, enum-member names, mid-range boundary lengths (300..32769).",
    "C04": " Also: envelope-level [10], present-but-empty controls element, padded lengths of up to 126 octets, universal trailing elements after complete component lists.",
    "C05": " Also: multi-kilobyte INTEGER contents (beyond CPython's int->str digit limit), receive called with little stack headroom, post-error send calls.",
    "C06": " Also: bursts of 200-65537 units in one delivery, outer length forms of 8-126 octets.",
    "C07": " Also: integers of 14400-40000 bits, elements of 2^21..2^24+2^16 octets, seven kinds of input buffer; the contract evaluation counts are evidence, the gate is on the boundary oracle.",
    "C08": " Also: send calls that fail while encoding (no bytes, no state change), look-alike notice names, long-lived sessions, one controls list object refilled in place between calls.",
    "C09": " Also: 2-1000 operations outstanding at once answered in four orders, look-alike notice names on responses.",
    "C10": " Also: 2-1000 requests open at once with non-monotonic and > 2^31 ids, failing sends anywhere in a history.",
    "C11": " Also: controls on every kind of call, empty/absent values, DNs, passwords and credentials, enum-member and look-alike names, unbind as first call, both ends CLOSED after a termination.",
    "C13": " Also: the library's == and a field-by-field walk must agree, values held in bytearrays, values of 63-1100 octets owned by the tree, edits after str().",
    "C14": " Also: each hex digit cased independently, 129-420-level sentences, malformed inputs (incl. bad escapes, low-headroom parses) before sentences.",
    "C15": " Also: calls with 40-400 frames of stack headroom, the same malformed fragment at far and near positions, the exception must carry this call's text.",
    "C16": " Also: 150-6000 extensions/names/list members, syntax lengths to 10^100, refused texts before cases, field-by-field comparison.",
    "C17": " Also: quoted SYNTAX with a length bound, 150-6000 extensions, the same text offered to the other definition kinds first.",
    "C19": " Also: registrations after the session has carried traffic, custom ids next to the built-ins and in high-tag-number form, a fresh session after other sessions failed with little stack headroom.",
}

