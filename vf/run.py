"""Runner: shards a property's workload over fresh worker processes, merges what the monitors
observed, applies the verdict discipline (held / violated / inconclusive), writes evidence."""
from __future__ import annotations

import argparse
import importlib
import json
import os
import re
import subprocess
import sys
import tempfile
import time

from vf.addenda import ADDENDA
from vf.common import PYTHON, REPO, REPO_SRC, VERIF, DEPS, CpuTimeout, cpu_limit, jsonable, load_json

REPLAY_CPU_BUDGET = 120  # CPU-seconds for replaying one recorded witness in the runner process (normally milliseconds)

KNOWN = os.path.join(VERIF, "known_findings.json")


def _env(hashseed="0"):
    env = dict(os.environ)
    pp = [REPO_SRC, VERIF]
    if os.path.isdir(DEPS):
        pp.append(DEPS)
    env["PYTHONPATH"] = os.pathsep.join(pp)
    env["PYTHONHASHSEED"] = hashseed
    env["PYTHONDONTWRITEBYTECODE"] = "1"
    return env


def shard_hashseed(seed, i):
    """Even shards run with str-hash randomisation off (seed 0), odd shards with a seed derived from (VERIF_SEED, shard):
    set/dict orders inside the code under test differ between shards but stay reproducible."""
    return "0" if i % 2 == 0 else str(1 + (seed * 1009 + i * 7919) % 4294967290)


def load_known(prop):
    if not os.path.exists(KNOWN):
        return []
    data = load_json(KNOWN)
    return [e for e in data.get("findings", []) if e.get("property") == prop]


def write_replay(prop, v, seed, tier):
    os.makedirs(os.path.join(VERIF, "replays"), exist_ok=True)
    safe = re.sub(r"[^A-Za-z0-9_.-]+", "_", v["key"])[:80]
    path = os.path.join(VERIF, "replays", f"{prop}-{safe}.json")
    with open(path, "w") as fh:
        json.dump({"property": prop, "key": v["key"], "what": v["what"], "witness": v["witness"], "seed": seed, "tier": tier, "hashseed": v.get("hashseed", "")}, fh, indent=1)
    return path


def do_replay(prop, mod, path):
    from vf.common import import_sansldap, unjson

    import_sansldap()
    rec = load_json(path)
    w = unjson(rec["witness"])
    if isinstance(w, dict) and w.get("shard_case"):
        # a case that did not return: re-run that shard (same seed, same hash seed) and see whether it happens again
        tier, seed, shard, nshards, _n = w["shard_case"]
        out = os.path.join(tempfile.mkdtemp(prefix="vf-replay-"), "s.json")
        subprocess.run([PYTHON, "-m", "vf.worker", prop, tier, str(seed), str(shard), str(nshards), out], env=_env(shard_hashseed(int(seed), int(shard))), cwd=VERIF, timeout=7200)
        res = load_json(out) if os.path.exists(out) else {}
        found = [(v["key"], v["what"]) for v in res.get("violations", []) if v["key"] == rec["key"]]
    else:
        found = mod.replay(w)
    if found:
        for key, what in found:
            print(f"replay: {key}: {what}")
        print(f"VIOLATION property={prop} replay={path}")
        return 1
    print(f"replay: property={prop} no violation on the current tree for {path}")
    return 0


def main(argv=None):
    ap = argparse.ArgumentParser()
    ap.add_argument("prop")
    ap.add_argument("--tier", default=os.environ.get("VERIF_TIER") or "quick", choices=["quick", "thorough"])
    ap.add_argument("--replay")
    ap.add_argument("--shards", type=int)
    ap.add_argument("--no-evidence", action="store_true")
    args = ap.parse_args(argv)
    if os.environ.get("VERIF_TIER") in ("quick", "thorough"):
        args.tier = os.environ["VERIF_TIER"]
    prop = args.prop.upper()
    seed = int(os.environ.get("VERIF_SEED", "0") or 0)
    sys.path.insert(0, REPO_SRC)
    if os.path.isdir(DEPS):
        sys.path.append(DEPS)
    os.environ.setdefault("PYTHONHASHSEED", "0")
    mod = importlib.import_module("vf.props." + prop.lower())
    if args.replay:
        return do_replay(prop, mod, args.replay)

    t0 = time.time()
    # oracle self-test: failure is an internal error, never a VIOLATION
    st = subprocess.run([PYTHON, "-m", "vf.selftest", "--fast"], env=_env(), cwd=VERIF, capture_output=True, text=True, timeout=600)
    if st.returncode != 0:
        print(st.stdout[-3000:], st.stderr[-3000:])
        print(f"INTERNAL-ERROR property={prop} reason=oracle-selftest-failed")
        return 3

    nshards = args.shards or mod.shards(args.tier)
    timeout = getattr(mod, "SHARD_TIMEOUT", {"quick": 900, "thorough": 7200})[args.tier]
    tmpdir = tempfile.mkdtemp(prefix=f"vf-{prop}-")
    procs = []
    extra_py = ["-X", "dev", "-W", "error::ResourceWarning"] if (args.tier == "thorough" and getattr(mod, "XDEV", True)) else []
    pending = list(range(nshards))
    running = []
    results = {}
    maxpar = min(16, os.cpu_count() or 4)
    while pending or running:
        while pending and len(running) < maxpar:
            i = pending.pop(0)
            out = os.path.join(tmpdir, f"s{i}.json")
            log = open(os.path.join(tmpdir, f"s{i}.log"), "w")
            p = subprocess.Popen(
                [PYTHON, *extra_py, "-m", "vf.worker", prop, args.tier, str(seed), str(i), str(nshards), out],
                env=_env(shard_hashseed(seed, i)), cwd=VERIF, stdout=log, stderr=subprocess.STDOUT,
            )
            running.append((i, p, out, log, time.time()))
        time.sleep(0.05)
        still = []
        for i, p, out, log, ts in running:
            rc = p.poll()
            if rc is None:
                if time.time() - ts > timeout:
                    p.kill()
                    p.wait()
                    results[i] = {"status": "timeout"}
                    log.close()
                else:
                    still.append((i, p, out, log, ts))
                continue
            log.close()
            if os.path.exists(out):
                results[i] = load_json(out)
            else:
                tail = open(log.name).read()[-2000:]
                results[i] = {"status": "crashed", "rc": rc, "log": tail}
        running = still

    # ---- merge
    import collections

    counters = collections.Counter()
    vcounts = collections.Counter()
    violations = {}
    samples = []
    nt = set()
    evaluations = 0
    nt_overflow = 0
    problems = []
    extra = {}
    for i in sorted(results):
        r = results[i]
        if r.get("status") != "ok":
            problems.append(f"shard {i}: {r.get('status')} {str(r.get('notes') or r.get('log') or '')[-1500:]}")
            if r.get("status") in ("timeout", "crashed"):
                continue
        evaluations += r.get("evaluations", 0)
        counters.update(r.get("counters", {}))
        vcounts.update(r.get("violation_counts", {}))
        for v in r.get("violations", []):
            violations.setdefault(v["key"], v)
        for s in r.get("samples", []):
            if len(samples) < 6:
                samples.append(s)
        hx = bytes.fromhex(r.get("nt_hex", ""))
        for k in range(0, len(hx), 8):
            nt.add(hx[k : k + 8])
        nt_overflow += r.get("nt_overflow", 0)
        for note in (r.get("notes") or [])[:3]:
            if r.get("status") == "ok" and len(extra.setdefault("notes", [])) < 6:
                extra["notes"].append(str(note)[:400])
        for k, v in (r.get("extra") or {}).items():
            if v not in extra.setdefault(k, []):
                extra[k].append(v)
    try:
        import shutil

        shutil.rmtree(tmpdir, ignore_errors=True)
    except Exception:
        pass

    # ---- known findings
    known = load_known(prop)
    open_keys = {e["key"]: e for e in known if e.get("status") == "open"}
    known_lines = []
    if open_keys:
        from vf.common import import_sansldap, unjson

        import_sansldap()
        for key, e in open_keys.items():
            try:
                with cpu_limit(REPLAY_CPU_BUDGET):
                    found = mod.replay(unjson(e["witness"]))
            except CpuTimeout:
                found = [(f"{key}:recorded-witness-does-not-return", f"replaying the recorded witness of known finding {key} did not return within {REPLAY_CPU_BUDGET} CPU-seconds")]
            except Exception as ex:  # replay machinery problem: report, do not suppress anything
                found = []
                problems.append(f"known finding {key}: replay raised {type(ex).__name__}: {ex}")
            if any(k == key for k, _ in found):
                known_lines.append(f"KNOWN-FINDING: property={prop} {key}: {e.get('what', '')}")
            else:
                print(f"NOTE known finding {key} no longer reproduces on this tree")
            for k, what in found:
                if k != key and k not in open_keys and k not in violations:
                    violations[k] = {"key": k, "what": what, "witness": e["witness"]}
                    vcounts[k] += 1
    # regression list: witnesses of repaired findings are replayed; a returning defect is a VIOLATION
    regress = 0
    for e in known:
        if e.get("status") != "fixed":
            continue
        from vf.common import import_sansldap, unjson

        import_sansldap()
        try:
            with cpu_limit(REPLAY_CPU_BUDGET):
                found = mod.replay(unjson(e["witness"]))
            regress += 1
        except CpuTimeout:
            found = [(f"{e['key']}:recorded-witness-does-not-return", f"replaying the witness of the repaired finding {e['key']} did not return within {REPLAY_CPU_BUDGET} CPU-seconds")]
            regress += 1
        except Exception as ex:
            problems.append(f"fixed finding {e['key']}: replay raised {type(ex).__name__}: {ex}")
            continue
        for k, what in found:
            if k not in open_keys and k not in violations:
                violations[k] = {"key": k, "what": what + " [witness of a repaired finding fails again]", "witness": e["witness"]}
                vcounts[k] += 1
    counters["regression-witnesses-replayed"] = regress
    new = {k: v for k, v in violations.items() if k not in open_keys}

    # ---- gating
    gate_reasons = list(mod.gates(counters, args.tier)) if hasattr(mod, "gates") else []
    if problems:
        gate_reasons.extend(problems)
    if evaluations == 0:
        gate_reasons.append("no evaluations")

    wall = time.time() - t0
    level = mod.LEVEL
    ev = {
        "property_id": prop,
        "tier": args.tier,
        "seed": seed,
        "level": level,
        "coverage": {
            "evaluations": int(evaluations),
            "distinct_nontrivial": len(nt),
            "rule": mod.RULE + ADDENDA.get(prop, "") + (f" (hash set capped per shard; {nt_overflow} further non-trivial cases not hashed)" if nt_overflow else ""),
            "samples": samples or ["<none>"],
            "observed": {k: counters[k] for k in sorted(counters)},
            "violation_counts": dict(vcounts),
            "known_findings_reproduced": [l for l in known_lines],
            "shards": nshards,
            "inconclusive_reasons": gate_reasons,
            "repo": REPO,
            "extra": jsonable(extra),
        },
        "assumptions": list(getattr(mod, "ASSUMPTIONS", [])),
        "wall_s": round(wall, 2),
        "violations": len(new),
    }
    if getattr(mod, "EXHAUSTIVE", None) is not None:
        ev["coverage"]["exhaustive"] = bool(mod.EXHAUSTIVE)
    if not args.no_evidence:
        os.makedirs(os.path.join(VERIF, "evidence"), exist_ok=True)
        with open(os.path.join(VERIF, "evidence", f"{prop}.json"), "w") as fh:
            json.dump(ev, fh, indent=1, sort_keys=True)

    for l in known_lines:
        print(l)
    top = ", ".join(f"{k}={counters[k]}" for k in list(sorted(counters))[:400])
    print(f"{prop} tier={args.tier} seed={seed} evaluations={evaluations} distinct_nontrivial={len(nt)} wall={wall:.1f}s")
    if os.environ.get("VERIF_VERBOSE"):
        print("observed:", top)
    if new:
        for k, v in new.items():
            path = write_replay(prop, v, seed, args.tier)
            print(f"violation[{k}] x{vcounts[k]}: {v['what']}".encode("ascii", "backslashreplace").decode("ascii"))
            print(f"VIOLATION property={prop} replay={path}")
        return 1
    if gate_reasons:
        for g in gate_reasons:
            print(f"INCONCLUSIVE property={prop} reason={g}")
        return 2
    print(f"HELD property={prop} on {evaluations} executions ({len(nt)} distinct non-trivial)")
    return 0


if __name__ == "__main__":
    sys.exit(main())
