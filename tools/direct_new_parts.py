"""Round-18 additions run directly (no sharding) against one tree: VERIF_REPO=<worktree> PYTHONPATH=/verif /venv/bin/python tools/direct_new_parts.py
prints the number of violations of: MS-ADTS notice closes a client, C03 forwarded messages (400), C15 lenient-hex pairs. Used for the
false-alarm pass over seeded/refactors (DESIGN 11.5); C11 late_types was run the same way."""
import os
import sys, random
from vf import absval; sl = absval.sl
assert os.environ.get('VERIF_REPO', '/repo') in sl.__file__, sl.__file__
from vf.props import c03, c15
from vf.gen import histories as h, values as gv
from vf.common import rng_for
bad = 0
for mid in (0, 1):
    for ctl in ((), (("1.2.3.4", False, b"v", None),), (("1.2.3.4", True, None, None), ("2.5", False, b"", None))):
        c = sl.LDAPClient(); c.extended_request("1.2.3", None); c.data_to_send()
        try:
            c.receive(h.ms_adts_notice(mid, ctl)); bad += 1
        except sl.ProtocolError:
            if c.state.name != "CLOSED": bad += 1
for j in range(400):
    r = rng_for("direct", j)
    m_abs = gv.g_message(r, gv.QUICK, op=gv.OPS[j % 9])
    if j % 2 and not any(c_[3] is not None for c_ in m_abs[3]):
        m_abs = (m_abs[0], m_abs[1], m_abs[2], m_abs[3] + ((gv.PAGED_OID, bool(j & 2), None, ("paged", gv.g_int(r), gv.g_bytes(r, gv.QUICK))),))
    res, _ = c03.check_forwarded(m_abs, [0, 0, j])
    bad += len([k for k, w in res if k != "unbind-constructed-bit"])
for pair in ("  ", "\t\t", " \t", "\n\n", "+1", "-1", " 1", "1 ", "0x", "_1", "1_", "١٢", "１２", "a ", " a"):
    for shape in ("(cn=\\{c}*)", "(cn=*\\{c})", "(cn=a*\\{c}*b)", "(cn=\\{c})", "(cn=x\\{c}y)", "(cn:=\\{c})"):
        v, _ = c15.check_text(shape.format(c=pair))
        bad += len(v)
print(bad)
