#!/usr/bin/env python3
"""Regenerates /verif/MANIFEST.json from the table below (keeps it schema-valid at all times)."""
import json
import os
import sys

HERE = os.path.dirname(os.path.dirname(os.path.abspath(__file__)))

TRUST = "Trusted base: the reference oracle in /verif/vf/ref (my reading of the RFC, self-tested on every run), CPython 3.12, the generators' reach. Decides only the executions produced."

import sys, os
sys.path.insert(0, os.path.dirname(os.path.dirname(os.path.abspath(__file__))))
from vf.addenda import ADDENDA

CHECKS = {
    "C01": ("exploration", "differential round trip on generated messages: field-wise comparator + consumption + re-pack oracle",
            "Runs pack->unpack->pack of the real code on 1.6e5 (quick) / 3e6 (thorough) boundary-biased messages of all 9 operations and compares every public field, the bytes consumed and the re-encoding. Held = no counterexample among them; the quantifier is infinite so this is exploration, concentrated on the regions the unit tests never sample.", "5/C01"),
    "C03": ("exploration", "differential: independent strict RFC 4511 decoder over the library's bytes (generated messages + session API output)",
            "Every generated message and every message emitted through the LDAPClient/LDAPServer API is decoded by an independent strict decoder written from RFC 4511 Appendix B and must give back the abstract message; catches symmetric mistakes the library's own decoder forgives.", "5/C03"),
    "C07": ("exploration", "arithmetic oracle (int.to_bytes/from_bytes, X.690 formulas) + icontract post-conditions on the six BER primitives",
            "All integers of [-70000,70000] exhaustively plus boundary/carry/random values to 2^2048, tags of every class with multi-octet numbers, all length forms, booleans, nestings; icontract post-conditions on the real asn1 functions are evaluated on every call (counts in evidence).", "5/C07"),
    "C02": ("exploration", "history + framing invariant: single-delivery twin, independent framer, return-time snapshots, probe equivalence",
            "Model-legal streams for both roles are delivered under exhaustive single cuts, exhaustive cut pairs (short streams), byte-wise and random partitions with bytes/bytearray/memoryview chunks whose caller buffers are overwritten afterwards; an online monitor compares messages returned with complete PDUs delivered after every call.", "5/C02"),
    "C04": ("fault_enumeration", "encoding-freedom injection through a reference encoder, differential against the abstract message",
            "Every single (node x freedom) alteration of small messages is enumerated and random combinations are applied to larger ones: all long length forms incl. AD's 0x84, TRUE as any non-zero octet, explicit DEFAULT FALSE, unrecognised trailing SEQUENCE components; decoded through unpack_ldap_message and LDAPSession.receive.", "5/C04"),
    "C05": ("fault_enumeration", "fault enumeration at the receive boundary: outcome-class, closed-state and notice-decoder oracles",
            "Enumerates 20 corruption operators at every node of valid messages, all 255 substitutions at every byte of short messages, every truncation, nesting bombs to 20000 levels and random bytes, under chunkings and 4 prior histories per role; the oracle accepts only a message list or ProtocolError, then requires CLOSED, refusal of further input and a strictly decodable notice/unbind.", "5/C05"),
    "C06": ("fault_enumeration", "conservation invariant against an independent TLV framer after every receive call",
            "Streams of complete top-level units with valid, overrunning, truncated, control-damaged and random interiors; after every returning receive call the number of messages returned must equal the number of complete units delivered.", "5/C06"),
    "C08": ("exploration", "online trace checker: real session stepped against an executable model of the documented state machine + CLOSED-finality temporal monitor",
            "Random joint client/server histories (incl. calls after failures and after closure, crafted deliveries) plus every call sequence of length <= 4 (quick) / <= 5 (thorough) over a 14-letter alphabet per role; each call's outcome class, state and emitted message are compared with the model of DESIGN Appendix B.", "5/C08"),
    "C09": ("exploration", "online trace checker: id monotonicity + in-progress set against the model, responses fabricated by the reference encoder",
            "Client-only histories with every response kind x id class, batched and chunked; ids checked against the strict decode of the emitted bytes.", "5/C09"),
    "C10": ("exploration", "trace checker in drain mode (per-call byte delta) and pending mode (offline decode of the drained stream)",
            "Histories biased to refusals in every state and for every response method; a refused call must raise LDAPError and add no bytes; the final drained stream must decode to exactly the accepted calls.", "5/C10"),
    "C11": ("exploration", "two-session simulator with byte pipes; offline log checker (exactly-once/in-order, state and probe agreement at quiescence)",
            "Seeded scheduler interleaves legal calls, partial moves and deliveries, noise calls and terminations; evidence counts distinct interleaving signatures, mid-header/mid-body deliveries and pipelining depth.", "5/C11"),
    "C12": ("exploration", "conservation over drains against a fully-drained twin session + strict decode of the concatenated drains",
            "Sends interleaved with data_to_send(a) over all amount classes; drain lengths, byte-exact concatenation, decoded message sequence and state are compared with a twin.", "5/C12"),
    "C19": ("exploration", "isolated vs interleaved per-call transcripts (incl. one thread per session), direct registration-scope checks",
            "Sequences with registrations of harness-defined custom control/filter/credential types on every subset of sessions are run alone and interleaved under >= 23 schedules each; any cross-session influence changes a transcript.", "5/C19"),
    "C13": ("exploration", "round trip filter -> text -> filter with dataclass equality + strict independent RFC 4515 recogniser of the text form",
            "Trees of all 10 kinds with hostile value octets at component boundaries (incl. values that are themselves filter text); str(f) must re-parse to f and be a strict RFC 4515 sentence with every special octet escaped.", "5/C13"),
    "C14": ("exploration", "differential on grammar sentences: library parser vs independent RFC 4515 reference parser vs generating tree, plus strict RFC 4511 decode of the encoded SearchRequest",
            "Sentences are rendered from trees with every free choice of the grammar (hex case, raw vs escaped octets, three extensible forms, ':dn' in any case, tolerated space decoration, nesting to 150).", "5/C14"),
    "C15": ("fault_enumeration", "fault enumeration on text: every single-character edit of sentences + random/unbalanced/deep inputs; outcome-class, offset-bounds, RFC 4512 recogniser and re-parse oracles",
            "Exhaustive per sentence over deletion and replacement/insertion with 32 structural and control characters; nesting to 100000 levels; lone surrogates counted separately.", "5/C15"),
    "C16": ("exploration", "round trip schema definition -> text -> definition with dataclass equality under a CPU watchdog",
            "Valid definitions of the three classes with descriptions/extension values weighted to quote, backslash, pipe, dollar, braces, newline, literal escape look-alikes and non-BMP text.", "5/C16"),
    "C17": ("exploration", "differential on grammar sentences vs an independent cursor-based RFC 4512 parser; totality on random strings and all single-character edits",
            "Every SP/WSP site is rendered with independent widths, lists single or parenthesised, X-/x- extensions, quoted SYNTAX; for non-sentences only a definition or ValueError is acceptable.", "5/C17"),
    "C18": ("exploration", "cost monitor: deterministic sys.monitoring event counts + CPU time over doubling input families, local-degree verdict; captured regexes driven directly",
            "74 hand-built hostile families, thousands of automatically pumped-and-broken sentences/messages, and every regex compiled on behalf of sansldap (captured by wrapping re._compile) are swept to n=4096 or the cost cap; a violation needs the cap below n=4096 with local degree > 8, reproduced.", "5/C18"),
}

NOT_YET = {}


def main():
    props = [json.loads(l) for l in open(os.path.join(HERE, "properties.jsonl"))]
    checks = []
    na = []
    for p in props:
        pid = p["id"]
        if pid in CHECKS and os.path.exists(os.path.join(HERE, "vf", "props", pid.lower() + ".py")):
            cat, tech, text, ref = CHECKS[pid]
            checks.append({
                "property_id": pid,
                "quick_cmd": f"./check {pid} --tier quick",
                "thorough_cmd": f"./check {pid} --tier thorough",
                "evidence_file": f"evidence/{pid}.json",
                "replay_cmd_template": f"./check {pid} --replay {{path}}",
                "engine": "vf",
                "level_claimed": {"category": cat, "text": text + ADDENDA.get(pid, ""), "design_ref": "DESIGN.md section " + ref},
                "level_note": TRUST,
                "technique": "runtime monitoring: " + tech,
            })
        else:
            na.append({"property_id": pid, "reason": NOT_YET.get(pid, "check under construction in this session (runtime monitor designed in DESIGN.md section 5, not yet registered)")})
    man = {
        "version": 1,
        "setup_cmd": "/venv/bin/pip install -q --no-index --find-links /opt/veriftools/wheels --target /verif/.deps icontract >/dev/null 2>&1 || true; cd /verif && PYTHONPATH=/verif:/verif/.deps /venv/bin/python -m vf.selftest",
        "hooks": {
            "guard": "SANSLDAP_VERIF",
            "enable": "no source hooks are needed: monitors attach from the harness process (module-attribute rebinding for icontract contracts, sys.monitoring, boundary proxies); checks import /repo/src directly in fresh processes",
            "baseline_off_cmd": "cd /repo && env -u SANSLDAP_VERIF /venv/bin/python -m pytest -ra -q -p no:cacheprovider --timeout=900 --continue-on-collection-errors",
            "source_commits": [],
            "add_only": True,
        },
        "engines": [{"name": "vf", "path": "vf/run.py", "serves_properties": [c["property_id"] for c in checks],
                     "kind_free_text": "sharded runtime-monitoring runner: fresh worker processes import the current /repo/src, drive seeded hostile workloads, oracles observe at the public boundary; three-valued verdict; evidence written per run"}],
        "checks": checks,
        "not_applicable": na,
        "notes": "Known findings: known_findings.json (open entries keyed by mechanism; fixed entries suppress nothing). Repository fixes are 'fix:' commits in /repo. VERIF_SEED seeds every random choice; VERIF_TIER overrides --tier.",
    }
    if not na:
        del man["not_applicable"]
        man["not_applicable"] = []
    with open(os.path.join(HERE, "MANIFEST.json"), "w") as fh:
        json.dump(man, fh, indent=1)
    print(f"MANIFEST.json: {len(checks)} checks, {len(na)} not_applicable")


if __name__ == "__main__":
    sys.exit(main())
