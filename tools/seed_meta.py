#!/usr/bin/env python3
"""Adds one-line summaries / what-it-needs and the first-run result to seeded/*/meta.json."""
import json, os
V = os.path.dirname(os.path.dirname(os.path.abspath(__file__)))
S = {
 "C01-1": ("LDAPResult._pack_inner writes the enum member instead of .value: unknown result codes encode as 0", "a result code with no LDAPResultCode member (9, 118, 4096...)"),
 "C01-2": ("SaslCredential.pack: `if self.credentials` drops present-but-empty credentials", "SASL bind with credentials == b''"),
 "C01-3": ("fast path in _pack_asn1_octet_string with `<= 0x80`: a 128-byte untagged octet string gets length octet 0x80", "an untagged OCTET STRING of exactly 128 bytes"),
 "C02-1": ("residue taken as buf[-len(reader):]: when everything was consumed [-0:] keeps the whole buffer, messages are returned again", "a message split over >= 2 deliveries whose last piece ends on a message boundary, then another delivery"),
 "C02-2": ("cached size of the pending PDU not reset when the residue holds no complete header: a later smaller message is withheld", "large message split after its header; completing delivery ends 1 byte into the next message; next message smaller"),
 "C02-3": ("residue buffer aliases the caller's bytearray", "bytearray input starting mid-message from the empty-residue state, caller reuses the buffer"),
 "C03-1": ("long-form length octet count from (length-1).bit_length(): one octet short for lengths 256 and 65536", "any TLV whose content is exactly 256 or 65536 octets"),
 "C03-2": ("SaslCredential.pack drops empty credentials (same site as C01-2, found independently)", "credentials == b''"),
 "C03-3": ("ExtendedResponse writes responseValue [11] before responseName [10]; the library's decoder accepts either order", "both name and value present"),
 "C04-1": ("length decoded with struct.unpack('>I'): more than 4 length octets raise struct.error", "a TLV with >= 5 length octets (valid BER)"),
 "C04-2": ("BOOLEAN TRUE only recognised as 0xFF", "TRUE encoded as another non-zero octet"),
 "C04-3": ("tag-class check lost in _unpack_extended_response: trailing elements numbered 10/11 of another class overwrite name/value", "an unrecognised trailing element UNIVERSAL/APPLICATION/PRIVATE 10 or 11"),
 "C05-1": ("buffered path leaves the residue as bytes: next receive raises AttributeError, session not closed", ">= 2 pipelined messages, chunk boundary straddling a message boundary while the buffer is non-empty, then one more chunk"),
 "C05-2": ("lost _search_requests.remove: replayed SearchResultDone raises KeyError out of receive", "search, done received, done replayed"),
 "C05-3": ("diagnosticMessage decoded with surrogateescape; the server's notice then fails to encode: UnicodeEncodeError escapes", "server receives a notice-of-disconnection ExtendedResponse whose diagnosticMessage is not UTF-8"),
 "C06-1": ("messageId read hoisted out of the NotEnougData guard: a unit truncated inside the messageId is dropped silently", "complete outer TLV ending inside the messageId (30 00, 30 01 02...)"),
 "C06-2": ("stale cached pending length on the buffered path: complete smaller messages sit in the buffer", "3-step schedule: large message split after header; completing read carries a partial next; following messages smaller"),
 "C06-3": ("long-form length check `<=` instead of `<`: an empty long-form unit at the end of the delivered bytes is held back", "30 81 00 / 30 84 00 00 00 00 as the last bytes delivered"),
 "C07-1": ("peek_header caches the header; read_enumerated does not invalidate the cache", "peek_header -> read_enumerated -> peek_header on one reader"),
 "C07-2": ("single-step carry in _pack_asn1_integer: negative multiples of 65536 raise ValueError", "write_integer(-65536), (-16777216)..."),
 "C07-3": ("module-level memo of identifier octets keyed by class<<6|pc<<5|number: collisions for tag numbers >= 32", "tag number >= 32 after an earlier colliding tag in the same process"),
 "C08-1": ("client registers the id as outstanding before the send gate: a rejected call leaves a phantom outstanding id", "rejected call while BINDING, then bind again / response for the phantom id"),
 "C08-2": ("`name is ExtendedOperations...` instead of ==: a notice sent with the OID as plain str never closes the server", "extended_response(name='1.3.6.1.4.1.1466.20036') as str"),
 "C08-3": ("client leaves BINDING on saslBindInProgress when serverSaslCreds is empty/absent", "multi-step SASL bind whose intermediate response has no creds"),
 "C09-1": ("same mechanism as C08-1 (found independently for C09)", "rejected request, then a response carrying the next id"),
 "C09-2": ("retirement decided by response type instead of membership in the search set", "response kind not matching the request kind, then another response for the id"),
 "C09-3": ("completed ids removed only after the whole receive call: duplicates in the same delivery are accepted", "duplicate final response coalesced into the same receive call"),
 "C10-1": ("a search id is only retired by SearchResultDone: other final responses leave it open", "search request, final extended/bind response, second response"),
 "C10-2": ("BINDING gate reads msg.name on every message: AttributeError instead of LDAPError", "search-family call while BINDING"),
 "C10-3": ("unknown-request check skipped when message_id is falsy", "server response with id 0"),
 "C11-1": ("un-buffered path stores the whole chunk as residue: complete messages at its front are delivered twice", "one chunk with a whole message plus the first bytes of the next, empty buffer"),
 "C11-2": ("same mechanism as C08-1 (found independently for C11)", "rejected request during a bind, then a bind before any other request"),
 "C11-3": ("server stays BINDING when a final bind response carries serverSaslCreds", "SUCCESS bind response with creds (GSSAPI mutual auth)"),
 "C12-1": ("read offset advanced by the requested amount, buffer reset only on ==", "data_to_send(n) with n > pending, then another send"),
 "C12-2": ("deque of chunks; remainder of a split chunk appended at the wrong end: bytes reordered", ">= 2 messages pending, amount ending inside a message that is not the last"),
 "C12-3": ("tail kept as buf[-(pending-amount):]: amount == pending keeps everything, bytes repeated", "explicit amount exactly equal to the pending count"),
 "C13-1": ("final substring component unescaped twice", "FilterSubstrings whose final contains a backslash"),
 "C13-2": ("and/or children deduplicated ('SET OF')", "two equal members in one and/or"),
 "C13-3": ("presence test on the unescaped value: (attr=\\2a) becomes a present filter", "FilterEquality(attr, b'*')"),
 "C14-1": ("'=' located with str.find using byte offsets", "raw multi-byte UTF-8 followed by another item"),
 "C14-2": ("substring values unescaped before and after splitting on '*'", "substring component containing \\2a or \\5c"),
 "C14-3": ("dn literal accepted only as 'dn' or 'DN'", "':Dn' / ':dN'"),
 "C15-1": ("error length does not subtract blanks skipped after '(': offset+length beyond the input", "rejected filter with a blank between '(' and the item"),
 "C15-2": ("attribute options validated with an unanchored pattern", "bad character after the first character of an option"),
 "C15-3": ("empty rule entry treated as absent: '(::=v)' accepted, its text form does not parse back", "'::=' or ':dn::='"),
 "C16-1": ("two-pass unescape: \\5c then \\27", "text containing a backslash followed by 27"),
 "C16-2": ("`if self.syntax_length:` drops {0}", "syntax_length == 0"),
 "C16-3": ("end of a parenthesised extension list found with split(')')", "multi-valued extension with ')' in a value"),
 "C17-1": ("chain of str.replace for unescaping", "\\5c27 / \\5c5C in a qdstring"),
 "C17-2": ("names split on the literal \"' '\"", "parenthesised NAME list with two or more spaces between names"),
 "C17-3": ("same mechanism as C16-3 (found independently for C17)", "list-form extension value containing ')'"),
 "C18-1": ("schema NUMBER `[1-9][0-9]*`: one-digit arcs match both alternatives, 2^arcs on failure", "OID with many one-digit arcs followed by a mismatch"),
 "C18-2": ("failing nested filter re-parsed once more per level: 2^depth", "invalid filter string nested >= ~15 levels, mistake at the innermost item"),
 "C18-3": ("LDAPFilter.unpack decodes on a cloned reader first, then for real: 2^depth on valid bytes", "received SearchRequest with a filter nested >= ~12 levels"),
 "C19-1": ("module-level memo tag -> filter class, only cleared when the number of choices changes", "two sessions with equally many but different custom filter registrations, registered one decodes first"),
 "C19-2": ("shared flyweight instances of the value-less known controls; unpack rewrites their .value", "one session receives the OID with a controlValue while another holds a received control"),
 "C19-3": ("duplicate detection through per-session id sets that start empty", "registration whose id collides with a built-in type"),
}
MISSED_FIRST = {"C06-3", "C07-1", "C11-3", "C13-2", "C19-1", "C19-2"}
n = 0
for mid, (summary, needs) in S.items():
    p = os.path.join(V, "seeded", mid, "meta.json")
    if not os.path.exists(p):
        continue
    m = json.load(open(p))
    m["summary"] = summary
    m["needs_to_manifest"] = needs
    m["first_run_of_target_check"] = "missed (workload strengthened afterwards, DESIGN 11.4)" if mid in MISSED_FIRST else "caught"
    json.dump(m, open(p, "w"), indent=1)
    n += 1
print(n, "meta files updated")
