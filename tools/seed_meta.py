#!/usr/bin/env python3
"""Adds one-line summaries / what-it-needs and the first-run result to seeded/*/meta.json."""
import json, os
V = os.path.dirname(os.path.dirname(os.path.abspath(__file__)))
S = {
 "C01-1": ("LDAPResult._pack_inner writes the enum member instead of .value: unknown result codes encode as 0", "a result code with no LDAPResultCode member (9, 118, 4096...)"),
 "C01-2": ("SaslCredential.pack: `if self.credentials` drops present-but-empty credentials", "SASL bind with credentials == b''"),
 "C01-3": ("fast path in _pack_asn1_octet_string with `<= 0x80`: a 128-byte untagged octet string gets length octet 0x80", "an untagged OCTET STRING of exactly 128 bytes"),
 "C02-1": ("residue taken as buf[-len(reader):]: when everything was consumed [-0:] keeps the whole buffer, messages are returned again", "a message split over >= 2 deliveries whose last piece ends on a message boundary, then another delivery"),
 "C02-2": ("cached size of the pending PDU not reset when the residue holds no complete header: a later smaller message is withheld", "large message split after its header; completing delivery ends 1 byte into the next message; next message smaller"),
 "C02-3": ("residue buffer aliases the caller's bytearray", "bytearray input starting mid-message from the empty-residue state, caller reuses the buffer"),
 "C03-1": ("long-form length octet count from (length-1).bit_length(): one octet short for lengths 256 and 65536", "any TLV whose content is exactly 256 or 65536 octets"),
 "C03-2": ("SaslCredential.pack drops empty credentials (same site as C01-2, found independently)", "credentials == b''"),
 "C03-3": ("ExtendedResponse writes responseValue [11] before responseName [10]; the library's decoder accepts either order", "both name and value present"),
 "C04-1": ("length decoded with struct.unpack('>I'): more than 4 length octets raise struct.error", "a TLV with >= 5 length octets (valid BER)"),
 "C04-2": ("BOOLEAN TRUE only recognised as 0xFF", "TRUE encoded as another non-zero octet"),
 "C04-3": ("tag-class check lost in _unpack_extended_response: trailing elements numbered 10/11 of another class overwrite name/value", "an unrecognised trailing element UNIVERSAL/APPLICATION/PRIVATE 10 or 11"),
 "C05-1": ("buffered path leaves the residue as bytes: next receive raises AttributeError, session not closed", ">= 2 pipelined messages, chunk boundary straddling a message boundary while the buffer is non-empty, then one more chunk"),
 "C05-2": ("lost _search_requests.remove: replayed SearchResultDone raises KeyError out of receive", "search, done received, done replayed"),
 "C05-3": ("diagnosticMessage decoded with surrogateescape; the server's notice then fails to encode: UnicodeEncodeError escapes", "server receives a notice-of-disconnection ExtendedResponse whose diagnosticMessage is not UTF-8"),
 "C06-1": ("messageId read hoisted out of the NotEnougData guard: a unit truncated inside the messageId is dropped silently", "complete outer TLV ending inside the messageId (30 00, 30 01 02...)"),
 "C06-2": ("stale cached pending length on the buffered path: complete smaller messages sit in the buffer", "3-step schedule: large message split after header; completing read carries a partial next; following messages smaller"),
 "C06-3": ("long-form length check `<=` instead of `<`: an empty long-form unit at the end of the delivered bytes is held back", "30 81 00 / 30 84 00 00 00 00 as the last bytes delivered"),
 "C07-1": ("peek_header caches the header; read_enumerated does not invalidate the cache", "peek_header -> read_enumerated -> peek_header on one reader"),
 "C07-2": ("single-step carry in _pack_asn1_integer: negative multiples of 65536 raise ValueError", "write_integer(-65536), (-16777216)..."),
 "C07-3": ("module-level memo of identifier octets keyed by class<<6|pc<<5|number: collisions for tag numbers >= 32", "tag number >= 32 after an earlier colliding tag in the same process"),
 "C08-1": ("client registers the id as outstanding before the send gate: a rejected call leaves a phantom outstanding id", "rejected call while BINDING, then bind again / response for the phantom id"),
 "C08-2": ("`name is ExtendedOperations...` instead of ==: a notice sent with the OID as plain str never closes the server", "extended_response(name='1.3.6.1.4.1.1466.20036') as str"),
 "C08-3": ("client leaves BINDING on saslBindInProgress when serverSaslCreds is empty/absent", "multi-step SASL bind whose intermediate response has no creds"),
 "C09-1": ("same mechanism as C08-1 (found independently for C09)", "rejected request, then a response carrying the next id"),
 "C09-2": ("retirement decided by response type instead of membership in the search set", "response kind not matching the request kind, then another response for the id"),
 "C09-3": ("completed ids removed only after the whole receive call: duplicates in the same delivery are accepted", "duplicate final response coalesced into the same receive call"),
 "C10-1": ("a search id is only retired by SearchResultDone: other final responses leave it open", "search request, final extended/bind response, second response"),
 "C10-2": ("BINDING gate reads msg.name on every message: AttributeError instead of LDAPError", "search-family call while BINDING"),
 "C10-3": ("unknown-request check skipped when message_id is falsy", "server response with id 0"),
 "C11-1": ("un-buffered path stores the whole chunk as residue: complete messages at its front are delivered twice", "one chunk with a whole message plus the first bytes of the next, empty buffer"),
 "C11-2": ("same mechanism as C08-1 (found independently for C11)", "rejected request during a bind, then a bind before any other request"),
 "C11-3": ("server stays BINDING when a final bind response carries serverSaslCreds", "SUCCESS bind response with creds (GSSAPI mutual auth)"),
 "C12-1": ("read offset advanced by the requested amount, buffer reset only on ==", "data_to_send(n) with n > pending, then another send"),
 "C12-2": ("deque of chunks; remainder of a split chunk appended at the wrong end: bytes reordered", ">= 2 messages pending, amount ending inside a message that is not the last"),
 "C12-3": ("tail kept as buf[-(pending-amount):]: amount == pending keeps everything, bytes repeated", "explicit amount exactly equal to the pending count"),
 "C13-1": ("final substring component unescaped twice", "FilterSubstrings whose final contains a backslash"),
 "C13-2": ("and/or children deduplicated ('SET OF')", "two equal members in one and/or"),
 "C13-3": ("presence test on the unescaped value: (attr=\\2a) becomes a present filter", "FilterEquality(attr, b'*')"),
 "C14-1": ("'=' located with str.find using byte offsets", "raw multi-byte UTF-8 followed by another item"),
 "C14-2": ("substring values unescaped before and after splitting on '*'", "substring component containing \\2a or \\5c"),
 "C14-3": ("dn literal accepted only as 'dn' or 'DN'", "':Dn' / ':dN'"),
 "C15-1": ("error length does not subtract blanks skipped after '(': offset+length beyond the input", "rejected filter with a blank between '(' and the item"),
 "C15-2": ("attribute options validated with an unanchored pattern", "bad character after the first character of an option"),
 "C15-3": ("empty rule entry treated as absent: '(::=v)' accepted, its text form does not parse back", "'::=' or ':dn::='"),
 "C16-1": ("two-pass unescape: \\5c then \\27", "text containing a backslash followed by 27"),
 "C16-2": ("`if self.syntax_length:` drops {0}", "syntax_length == 0"),
 "C16-3": ("end of a parenthesised extension list found with split(')')", "multi-valued extension with ')' in a value"),
 "C17-1": ("chain of str.replace for unescaping", "\\5c27 / \\5c5C in a qdstring"),
 "C17-2": ("names split on the literal \"' '\"", "parenthesised NAME list with two or more spaces between names"),
 "C17-3": ("same mechanism as C16-3 (found independently for C17)", "list-form extension value containing ')'"),
 "C18-1": ("schema NUMBER `[1-9][0-9]*`: one-digit arcs match both alternatives, 2^arcs on failure", "OID with many one-digit arcs followed by a mismatch"),
 "C18-2": ("failing nested filter re-parsed once more per level: 2^depth", "invalid filter string nested >= ~15 levels, mistake at the innermost item"),
 "C18-3": ("LDAPFilter.unpack decodes on a cloned reader first, then for real: 2^depth on valid bytes", "received SearchRequest with a filter nested >= ~12 levels"),
 "C19-1": ("module-level memo tag -> filter class, only cleared when the number of choices changes", "two sessions with equally many but different custom filter registrations, registered one decodes first"),
 "C19-2": ("shared flyweight instances of the value-less known controls; unpack rewrites their .value", "one session receives the OID with a controlValue while another holds a received control"),
 "C19-3": ("duplicate detection through per-session id sets that start empty", "registration whose id collides with a built-in type"),
 # ---- round 2 (sub-agents were told what round 1 had produced and asked for subtler, different mechanisms)
 "C01-4": ("PartialAttribute values de-duplicated on decode ('SET OF')", "an attribute holding the same octet string twice"),
 "C01-5": ("peek_header memo not cleared by read_set: stale header after an AND/OR group", "AND/OR group followed by a sibling inside an enclosing AND/OR"),
 "C01-6": ("packed filter bytes memoised by str(filter), which is not injective", "two different filters with the same text form packed in one process (None vs b'' parts, present vs part-less substrings)"),
 "C02-4": ("direct path returns on an incomplete tail before processing the messages it parsed: state diverges", "chunk holding >= 1 complete message followed by an incomplete one"),
 "C02-5": ("length decoded from however many length octets are present: a cut inside zero-padded length octets reads length 0", "non-minimal long-form lengths (30 84 00 00 ..) and a cut inside them"),
 "C02-6": ("receive returns the same list object every time", "caller keeps a returned list across a later receive"),
 "C03-4": ("every control wrapped in its own controls [0] element", "message with >= 2 controls"),
 "C03-5": ("lru_cache'd length octets reversed in place by the caller: second TLV of the same length >= 256 gets byte-swapped length", "same large non-palindromic length packed twice in one process"),
 "C03-6": ("ENUMERATED packed unsigned: pad octet dropped", "result code 128..255, 32768.."),
 "C04-4": ("tag table keyed by the first identifier octet only", "two unrecognised multi-octet tags of different width in one message"),
 "C04-5": ("dnAttributes read as bool(octet string): explicit FALSE decodes as True", "explicit DEFAULT FALSE dnAttributes"),
 "C04-6": ("control unpack loop takes any later UNIVERSAL BOOLEAN / OCTET STRING as criticality / value", "trailing universal-class element after a complete Control"),
 "C05-4": ("RecursionError handled in its own clause that does not close the session", "input nested past the recursion limit, then a look at state"),
 "C05-5": ("PagedResultControl.unpack passes None to ASN1Reader: TypeError escapes", "paged control without value"),
 "C05-6": ("client registers a search id before the send gate: stale id, later SearchResultDone raises KeyError", "refused search, then a done for the next id"),
 "C06-4": ("3-, 5-, 6-, 7-octet lengths padded on the wrong side: length x256, unit held back forever", "message >= 65536 bytes or non-minimal 3/5/6/7-octet outer length"),
 "C06-5": ("parsing stops after a BindRequest: following complete units held back", "BindRequest that is not the last complete unit of a delivery"),
 "C06-6": ("unknown protocolOp skipped silently after the envelope was consumed", "well-formed APPLICATION protocolOp outside the nine known kinds"),
 "C07-4": ("two's complement done in place on writable inputs: caller's buffer rewritten, second read differs", "bytearray / writable memoryview input, negative value, second look"),
 "C07-5": ("own ENUMERATED encoder, non-minimal for -2^(8k-1)", "write_enumerated(-128 / -32768 / -2^31)"),
 "C07-6": ("availability check only when the function parses the header itself: truncated value returned short with header=", "truncated data plus peek_header -> read_*(header=h)"),
 "C08-4": ("BindResponse handled before the id checks: unsolicited one accepted", "BindResponse with an id that is not outstanding"),
 "C08-5": ("any request received while BINDING moves the server to OPENED", "search/extended request delivered between BindRequest and the final bind response"),
 "C08-6": ("bind with empty SASL mechanism exempt from the outstanding-operations check", "bind_sasl('') while a request is outstanding"),
 "C09-4": ("'last search id' memo never invalidated after Done", "entry, done, then another entry for the same id"),
 "C09-5": ("search-id test before the is-a-response test: request-type message with a running search id accepted", "request message carrying the id of a running search"),
 "C09-6": ("ExtendedResponse with id 0 and a responseName passed through", "unsolicited extended response that is not the notice of disconnection"),
 "C10-4": ("SASL in-progress bind response does not retire the request", "second bind_response to the same id before the next bind leg"),
 "C10-5": ("notice of disconnection exempt from the outstanding-id check", "extended_response(<id not outstanding>, name=notice)"),
 "C10-6": ("rejected response rolled back by resetting the whole outgoing queue", "unfetched bytes pending at the moment of a refused call"),
 "C11-4": ("stale size hint of the partial message (variant of C02-2 on another path)", "completing chunk carries only the first byte of a shorter next message"),
 "C11-5": ("send offset advanced by the requested amount", "data_to_send(amount > pending) then another send"),
 "C11-6": ("server enters BINDING only from BEFORE_OPEN", "a bind that is not the first request on the connection"),
 "C12-4": ("message packed straight into the outgoing buffer: a send failing while encoding leaves a partial message", "send raising during encoding (unencodable text), then a drain"),
 "C12-5": ("server also queues the notice on a failed receive", "protocol error in LDAPServer.receive followed by a drain"),
 "C12-6": ("state flips to CLOSED inside the data_to_send call that takes the last byte of the notice", "notice sent, then drains; state inspected around drains"),
 "C13-4": ("backslash already followed by two hex digits not escaped", "value containing a backslash followed by two hex digits"),
 "C13-5": ("attribute descriptions interned by lower-cased form: first spelling wins", "two parses / leaves whose attributes differ only in case"),
 "C13-6": (":dn flag detected by prefix", "rule name starting with 'dn' and longer"),
 "C14-4": ("FilterExtensibleMatch.pack drops an empty matchValue", "extensible match with empty value; only independent BER shows it"),
 "C14-5": ("presence test on the stripped value", "'(cn=* )', '(cn= *)'"),
 "C14-6": ("equal and/or members dropped (same as C13-2, found independently)", "two equal sibling filters"),
 "C15-4": ("escape error in a substring component reported with the component's offset and the whole value's length", "broken escape in an any/final component"),
 "C15-5": ("cache of checked attribute descriptions fed by extensible headers", "'X:=v' earlier in the process, then 'X=v' with an invalid X"),
 "C15-6": ("error message excerpt decodes 16 bytes of the left-over: UnicodeDecodeError", "extra data > 16 bytes with a multi-byte character across byte 16"),
 "C16-4": ("runs of spaces folded before tokenising extensions", "extension value with two consecutive spaces"),
 "C16-5": ("_parse_oids lru_cache'd: parsed definitions share list objects", "parse, edit a list of the result, parse again"),
 "C16-6": ("COLLECTIVE written only when not SINGLE-VALUE", "both flags set"),
 "C17-4": ("length extraction regex no longer matches {0}", "SYNTAX oid{0}"),
 "C17-5": ("extension with an empty value list disappears", "X-FOO ( )"),
 "C17-6": ("DIT content rule DESC not unescaped", "DCR whose DESC contains \\27 or \\5c"),
 "C18-4": ("'$' between oids optional: a name in an oid list splits in 2^(letters-1) ways", "rejected definition whose MUST/MAY/... list holds a name of >= ~20 letters"),
 "C18-5": ("nesting-depth pre-scan calling itself twice per level", "received message with >= ~14 nested constructed values"),
 "C18-6": ("QUTF8 widened to [^']: escapes can also be read as plain characters", "rejected definition with >= ~18 escapes in a quoted string"),
 "C19-4": ("session keeps the caller's bytearray as its incoming buffer", "same bytearray object handed to two sessions, first chunk incomplete"),
 "C19-5": ("control choices resolved through a one-shot iterator per message", "message with >= 2 controls not in the session's choice order"),
 "C19-6": ("identifier-octet memo keyed without the constructed bit", "two custom types with the same class and number but different form, packed by different sessions"),
 # ---- round 3 (two changes per property; agents were pointed at un-anchored modules, refactor-looking edits and specific combinations)
 "C01-7": ("ExtendedResponse._pack_inner loop uses break instead of continue on a None field: value lost when name is absent", "ExtendedResponse with name=None and a value"),
 "C01-8": ("SimpleCredential.pack NFKC-normalises the password", "password that is not NFKC-stable (combining marks, ligatures, full-width, NBSP)"),
 "C02-7": ("_incoming_buffer becomes a class-level default reused in place: every session shares one residue buffer", "two sessions alive, one with a partial message pending while the other receives"),
 "C02-8": ("an empty chunk discards the residue", "receive(b'') between two pieces of one message"),
 "C03-7": ("write_enumerated(self.result_code) (independent rediscovery of C01-1)", "result code outside the known enumeration"),
 "C03-8": ("ASN1Writer for SET / SET OF skips a TLV identical to one it already holds", "two identical members in one SET OF (attribute values, and/or members)"),
 "C04-7": ("long-form length octets read at view[idx+1], assuming a one-octet identifier", "unrecognised element with tag number >= 31 and long-form length"),
 "C04-8": ("length from int.from_bytes over however many octets are present (same idea as C02-5, other guard)", "zero-padded envelope length and a read boundary inside the length octets"),
 "C05-7": ("unknown result code named via to_bytes(4): OverflowError escapes receive", "resultCode with >= 5 content octets"),
 "C05-8": ("length octets read with view[idx] after a too-narrow availability check: IndexError escapes", "chunk ending inside multi-octet length octets, or an inner TLV whose length octets are cut off"),
 "C06-7": ("buffer only replaced when something is left: consumed units stay and are returned again", "unit split over >= 2 reads, completing read ends on the unit boundary, then one more receive"),
 "C06-8": ("reads shorter than 2 octets are stashed without parsing", "the last octet of a unit arriving on its own"),
 "C07-7": ("struct fast path reads 4-octet integers unsigned", "INTEGER/ENUMERATED of exactly 4 content octets with the sign bit set"),
 "C07-8": ("truncated long-form length parsed as a shorter number", "buffer ending part-way through the length octets"),
 "C08-7": ("server keeps an id outstanding by search-set membership instead of by the message type sent", "search answered with an extended response / non-search answered with an entry, then a bind or second response"),
 "C08-8": ("TypeTagNumber(n) replaced by a dict lookup: KeyError for UNIVERSAL tag numbers >= 37 escapes receive", "peer element with UNIVERSAL class and tag number >= 37"),
 "C09-7": ("SearchResultDone with a paged-results cookie does not finish the search", "done + paged control + non-empty cookie, then another response on the id"),
 "C09-8": ("buffer not emptied when the buffered bytes were fully consumed (same as C06-7, found independently)", "response split over two receives, then one more receive"),
 "C10-7": ("outstanding ids kept in a list (multiset)", "two requests with the same message id outstanding together - outside the domain the check claims (DESIGN 7.9), not caught"),
 "C10-8": ("merged unpack loops no longer clear the buffer after full consumption (C06-7 again)", "request split over >= 2 receives and answered, then more input"),
 "C11-7": ("search id registered before the send gate; the next accepted request reuses it (variant of C05-6)", "search refused while BINDING, next accepted non-search request"),
 "C11-8": ("client may bind again while BINDING with the previous bind unanswered", "two binds pipelined before the first answer"),
 "C12-7": ("closing the session on a failed receive also clears the outgoing buffer", "undrained output at the moment of a failed receive"),
 "C12-8": ("ExtendedResponse with id 0 passes validation; remove(0) then raises KeyError after queuing", "server extended_response(0, ...)"),
 "C13-7": ("fast path `find(backslash) <= 0` treats index 0 as not found: leading escape not decoded", "value whose first octet is escaped"),
 "C13-8": ("from_string lru_cache'd: parsed trees shared between callers", "parse, edit a list inside the result, parse the same text again"),
 "C14-7": ("scan for ')' starts at index 1: empty assertion value swallows the next sibling", "'(&(cn=)(sn=x))'"),
 "C14-8": ("attribute descriptions cached case-insensitively (as C13-5, other site)", "same attribute in two spellings in one process"),
 "C15-7": ("value always unescaped before the substring split (double unescape)", "substring component that decodes to an escape / star / backslash"),
 "C15-8": ("str.isalpha() fast path accepts non-ASCII letters in attribute descriptions and rules", "name made only of letters, one of them non-ASCII"),
 "C16-7": ("re.UNICODE passed as the count argument of re.sub: only the first 32 escapes decoded", "one string with >= 33 quotes/backslashes"),
 "C16-8": ("_parse_oids via findall(\\w+(?:[.-]\\w+)*): trailing / doubled hyphens lost", "OID list entry such as 'abc-' or 'a--b'"),
 "C17-7": ("extension key via replace('X-', '', 1) instead of [2:]", "lower-case 'x-' marker"),
 "C17-8": ("whitespace folded over the whole input before matching", "two spaces or tab/newline inside a quoted string"),
 "C18-7": ("BindResponse loop neither reads nor skips an unknown context-specific element: infinite loop", "BindResponse with a trailing [n != 7] element (~23 bytes hang the client)"),
 "C18-8": ("nested ValueErrors re-raised with repr of the inner error: text doubles per level", "filter failing with ValueError under >= ~15 levels of and/or/not"),
 "C19-7": ("all messages packed through one module-level writer that a failed pack leaves dirty", "send failing while encoding on one session, then a send on another"),
 "C19-8": ("FilterOr.unpack falls back to default options: registration lost below an OR", "registered custom filter nested under an or"),
 # ---- round 4 (two changes per property; agents were pointed at Python-specific semantics, protocol corner cases and object life-cycle)
 "C01-9": ("one shared root writer for every pack, not cleared when a pack fails", "a pack that raised earlier in the process; the next pack returns stale data plus the real message"),
 "C01-10": ("ENUMERATED read with int.from_bytes unsigned", "negative result code"),
 "C02-9": ("buffered path skips parsing when the chunk (not the buffer) is shorter than 2 octets", "message completed by a 0- or 1-byte chunk"),
 "C02-10": ("memoryview input replaced by memoryview.obj: slice bounds lost", "chunk passed as a slice of a larger buffer"),
 "C03-9": ("PagedResultControl.get_value with a mutable default ASN1Writer argument", "second paged control packed in a process"),
 "C03-10": ("ExtendedResponse value written only inside the name block (indentation slip)", "name absent, value present"),
 "C04-9": ("BindResponse loop skips again after reading serverSaslCreds", "creds followed by an unknown trailing element longer than the creds"),
 "C04-10": ("BOOLEAN reader returns a fixed consumed length of 3", "BOOLEAN with a long-form length"),
 "C05-9": ("notice diagnostic text appended to a %-format template before formatting", "notice of disconnection whose diagnosticMessage contains %s / %d"),
 "C05-10": ("BOOLEAN read with struct.unpack('?'): struct.error for 0 or >= 2 content octets", "zero-length or multi-octet BOOLEAN"),
 "C06-9": ("break inside finally swallows the exception of a malformed last unit on the buffered path", "stream split over >= 2 receives whose last buffered unit is malformed"),
 "C06-10": ("residue kept as a memoryview of the caller's buffer until the next receive", "bytearray/memoryview input reused by the caller"),
 "C07-9": ("child writers write into the parent's buffer and splice their header in at close", "two children open at once, parent written while a child is open, child never closed"),
 "C07-10": ("a read that raises ValueError skips the value it refused", "probing read with the wrong tag, then keep reading"),
 "C08-9": ("notice test `name in <str>` (tuple lost its comma): substring match", "ExtendedResponse named with a proper substring of the notice OID"),
 "C08-10": ("bind completion tested with `is` on the message id", "bind with message id >= 257 (long-lived client)"),
 "C09-9": ("in-progress bind response does not retire its id; bind guard relaxed while BINDING", "multi-step SASL bind, then a second response for the first step's id"),
 "C09-10": ("discard(remove_id) - the bool flag, not the id: every final response retires id 1", "more than one request issued"),
 "C10-9": ("messages packed straight into the outgoing buffer", "send failing while encoding after the gates passed"),
 "C10-10": ("server's 'current search' cache invalidated with `is`", "id > 256, entries then done addressed through a different int object, then a late entry"),
 "C11-9": ("notice name compared with `is` in extended_response (C08-2 at another site)", "notice sent with the OID as a plain str"),
 "C11-10": ("SearchScope(scope or SUBTREE): BASE is falsy", "search with scope BASE / 0"),
 "C12-9": ("outgoing buffer as io.BytesIO with one cursor for reads and writes", "partial or zero drain, then another send"),
 "C12-10": ("cached bound method extend of a buffer that data_to_send later replaces", "any drain with an explicit amount, then a send"),
 "C13-9": ("presence test on the stripped raw value", "substring filter whose only component is blank"),
 "C13-10": ("and/or text form cached on the (frozen) object", "str(), edit the filters list, str() again"),
 "C14-9": ("presence test on the unescaped value", "'(cn=\\2a)'"),
 "C14-10": ("module-level nesting counter not decremented when an exception passes", "a few hundred malformed nested filters earlier in the process"),
 "C15-9": ("attribute pattern `[a-z]` with re.IGNORECASE on str: also matches K (Kelvin), long s, dotless/dotted i", "one of those four code points in a name"),
 "C15-10": ("last-component test `idx is last_idx`", "substring filter with >= 258 components"),
 "C16-9": ("extension values found with '(.*?)' (dot does not match newline)", "extension value containing a line feed"),
 "C16-10": ("extra Unicode-aware strip() before stripping quotes: acts on bare extension values", "extension value beginning or ending with white space"),
 "C17-9": ("same mechanism as C16-10 (found independently)", "extension value with leading/trailing white space"),
 "C17-10": ("parsed oids interned by lower-cased key", "same descriptor in different capitalisation across parses"),
 "C18-9": ("space skipping guarded by isspace() but only stepping over 0x20: no progress on tab/newline", "'(\\tcn=a)' never returns"),
 "C18-10": ("KEYSTRING accepts extra '-'/'_'/'.'-joined segments: hyphenated names parse 2^k ways", "rejected definition after a name with ~20 hyphens"),
 "C19-9": ("receive reads options through a lambda captured at construction: deep copies share the registry", "copy.deepcopy of a session, then a registration on either side"),
 "C19-10": ("module-level default options shared until a shallow fork on first registration", "one session registering two different kinds"),
}
# ---- round 5 (cross-cutting reviewers given all 19 statements and the list of earlier changes)
S.update({
 "C01-11": ("control class chosen by numeric arcs through int(): look-alike spellings of a known control OID (leading zeros, '+', '_', blanks, Unicode digits) decode as the known class with the canonical type", "a control whose type is an int()-equivalent spelling of 1.2.840.113556.1.4.319/417/2065"),
 "C01-12": ("four assertion filter kinds encode the attribute with FilterOptions.string_encoding (the class attribute, always utf-8) instead of options.string_encoding", "PackingOptions/FilterOptions with a non-UTF-8 string_encoding and an eq/ge/le/approx filter"),
 "C01-13": ("LDAPResultCode._missing_ names pseudo members from value & 0xFFFFFFFF: unknown codes congruent mod 2^32 alias, process-wide", "two unknown result codes agreeing in their low 32 bits in one process, compared by .value or bytes"),
 "C04-11": ("MS-ADTS envelope [10] responseName injected into any message that has a .name (hasattr) instead of ExtendedResponse only", "BindRequest/ExtendedRequest with empty name followed by a trailing context [10] element in the envelope"),
 "C05-11": ("receive split into two try blocks; the second only catches ProtocolError, so the ValueError of int->str conversion (> 4300 digits) in an error message escapes and the session stays open", "a response whose messageID INTEGER has more than 4300 decimal digits"),
 "C05-12": ("and/or/not unpack folded into a list helper; FilterNot takes [0]: an empty 'not' raises IndexError out of receive", "SearchRequest containing A2 00 at any depth"),
 "C07-11": ("struct.unpack('B', view[i:i+1]) replaced by view[i]: signed-char memoryviews give negative length octets", "input given as memoryview of format 'b' (array('b'), cast) with a long-form length octet >= 0x80"),
 "C08-11": ("client: any BindResponse with saslBindInProgress moves to BINDING, also when it answers a non-bind operation", "BindResponse code 14 for an outstanding extended/search id while OPENED"),
 "C08-12": ("server: BINDING -> OPENED moved into the validation hook that runs before pack; a bind_response that fails to encode leaves the server OPENED with nothing sent", "final bind_response whose diagnostics/matched DN cannot be encoded (lone surrogate)"),
 "C09-11": ("notice of disconnection recognised by numeric arcs through int(): look-alike names are taken for the notice (client closes, server closes itself)", "ExtendedResponse to an outstanding id whose name is an int()-equivalent spelling of 1.3.6.1.4.1.1466.20036"),
 "C11-11": ("ExtendedRequest packs str(self.name): the library's own str-valued enum member goes on the wire as 'ExtendedOperations.LDAP_START_TLS'", "caller passes sansldap.ExtendedOperations.<member> as the name"),
 "C13-11": ("escaped text of values >= 64 octets memoised by id(value): a freed value's id is reused and str() emits the earlier value's text", "two long values stringified one after another without the first staying alive"),
 "C16-11": ("extensions parsed tokenise-then-walk with tokens unquoted before the ( ) structure test: a value that is exactly '(' or ')' changes the structure", "an extension value equal to a single parenthesis"),
 "C17-11": ("_parse_extensions recursive (first, then rest): stack depth = number of extensions", "a valid definition with ~1000 or more extensions"),
 "C17-12": ("AttributeTypeUsage.DISTRIBUTED_OPERATION given the value 'directoryOperation' (enum alias): USAGE distributedOperation parses as userApplications", "USAGE distributedOperation with an expectation independent of the library's enum"),
 "C18-11": ("fast-path pre-validation regex with a nested quantifier in _unpack_filter_value", "a run of >= 25 ordinary characters followed by a malformed escape"),
 "C18-12": ("extra WSP before RPAREN in QDSTRINGS/QDESCRS: every parenthesised extension value list matches two ways, 2^k on rejection", "invalid definition whose valid prefix repeats many parenthesised extension lists"),
 "C19-11": ("auth_id -> class table in a cached_property built on the first BindRequest: later register_auth_credential is accepted but ignored", "bind received, then registration, then a bind with the custom type"),
 "C19-12": ("control_type -> class dict built lazily on the first decoded control and never refreshed", "message with any control received, then register_control, then the custom control"),
 "C19-13": ("filter choice dict rebuilt only when `choices` is a different list object; register_filter appends to the same list", "search received, then register_filter, then a search using the custom filter"),
})
ORIGIN5 = {"C01-11", "C01-12", "C01-13", "C04-11", "C05-11", "C05-12", "C07-11", "C08-11", "C08-12", "C09-11", "C11-11", "C13-11", "C16-11", "C17-11", "C17-12", "C18-11", "C18-12", "C19-11", "C19-12", "C19-13"}

# ---- round 6 (three reviewers on the properties least hit in round 5, one on API-usage style)
S.update({
 "C02-11": ("client fast path: a delivery made only of entries/references whose first id is a running search skips per-message bookkeeping - a later entry with a bogus id is accepted or refused depending on where the stream was cut", "running search; delivery of only entries where a later one carries an id that is not in progress"),
 "C02-12": ("every decoded message without controls shares one module-level empty list", "the application appends to .controls of a returned message; any later control-less message shows that control"),
 "C03-11": ("'1.1' left out of the encoded attribute selection when other selectors are present", "attributes containing '1.1' and at least one other value"),
 "C03-12": ("a notice of disconnection is always packed with messageID 0", "ExtendedResponse named 1.3.6.1.4.1.1466.20036 with a non-zero id"),
 "C06-11": ("process-wide memo of decoded headers keyed by the first 6 octets: long zero-padded length forms collide", "two units with >= 5 length octets and different lengths, the larger first"),
 "C06-12": ("receive returns at most 256 messages per call; the rest stays buffered without message or error", "more than 256 complete units available to one receive call"),
 "C10-11": ("outgoing buffer with a read offset compacted at the top of _send before the refusal checks; offset reset only after a successful queue", "send, partial drain, a refused call, drain the rest"),
 "C11-12": ("PartialAttribute pack pre-scans self.values (type check) before the write loop: a one-shot iterator is exhausted", "attribute values passed as a generator/iterator instead of the annotated list"),
 "C11-13": ("FilterAnd/FilterOr get __len__/__iter__: an empty and/or is falsy and `filter or FilterPresent(...)` replaces it", "FilterAnd([]) / FilterOr([]) as the top-level filter of search_request"),
 "C12-11": ("read-offset buffer compacted lazily at 4096 with del buffer[:count] instead of [:end]: offset bytes handed out twice", "> 4 KiB pending, partial drain below 4096, then a drain crossing 4096 without emptying"),
 "C12-12": ("sent-position buffer: _send deletes the sent prefix before validation/pack and resets the position only after appending", "partial drain, a send refused by validation or encoding, another drain"),
 "C12-13": ("read-offset buffer compacted once 64 KiB of drained data piled up, offset not reset", "long-lived sender with bounded partial drains, never empty, >= 64 KiB drained"),
 "C13-12": ("assertion values: isinstance(value, bytes) else str(value).encode() - bytearray/memoryview values go out as their repr", "assertion value held in a bytearray or memoryview"),
 "C14-11": ("\\XX escapes decoded through a dict built from lower- and upper-case pairs only: mixed-case letter pairs rejected", "an escape whose two hex digits are letters of different case (\\aF)"),
 "C14-12": ("operator found by table priority anywhere in the item instead of at the first '='", "a value containing an operator look-alike ranking earlier than the item's own operator ((description=x>=y))"),
 "C15-11": ("'Extra data' error length computed as len(filter) - consumed (characters minus octets): negative", "extra data after a filter whose accepted part has multi-octet characters"),
 "C15-12": ("explicit depth counter (128) replaces `except RecursionError`: RecursionError escapes when the caller leaves little stack headroom; valid filters nested 129-480 deep are refused", "a filter nested <= 128 deep parsed with fewer free frames than ~2x its depth, or a valid filter nested > 128"),
 "C16-12": ("extension names merged case-insensitively into the first spelling", "two extension names differing only in case"),
 "C16-13": ("{len} extractor limited to 10 digits while the grammar regex accepts more: syntax keeps '{...}', syntax_length None", "syntax_length >= 10**10"),
 "C18-13": ("XSTRING reuses KEYCHAR (contains '-') and keeps '|-': every hyphen in an X- name matches two ways", "a rejected definition with a long run of hyphens in an extension name"),
})
ORIGIN5 |= {"C02-11", "C02-12", "C03-11", "C03-12", "C06-11", "C06-12", "C10-11", "C11-12", "C11-13", "C12-11", "C12-12", "C12-13", "C13-12", "C14-11", "C14-12", "C15-11", "C15-12", "C16-12", "C16-13", "C18-13"}
ROUND6 = {"C02-11", "C02-12", "C03-11", "C03-12", "C06-11", "C06-12", "C10-11", "C11-12", "C11-13", "C12-11", "C12-12", "C12-13", "C13-12", "C14-11", "C14-12", "C15-11", "C15-12", "C16-12", "C16-13", "C18-13"}

# ---- round 7 (angles: needles, two-feature interactions, error-path residue, absent vs empty vs default)
R7 = {
 "C01-14": ("decoded referrals default to [] instead of None when the result code is REFERRAL", "result code 10 with an absent referral field"),
 "C01-15": ("serverSaslCreds read as `... or None`: present-but-empty decodes as absent", "BindResponse(server_sasl_creds=b'')"),
 "C01-16": ("FilterSubstrings.pack tests `if self.initial` / `if self.final`: empty initial/final dropped", "substrings filter with initial == b'' or final == b''"),
 "C03-13": ("PagedResultControl.pack always writes the criticality BOOLEAN (DEFAULT FALSE encoded)", "paged-results control with critical=False"),
 "C03-14": ("PartialAttribute vals SET written only when there are values, read only when present (symmetric)", "SearchResultEntry with an attribute of zero values"),
 "C06-13": ("buffered path peeks the header from the first 16 octets only and treats NotEnougData as incomplete", "PDU whose outer length uses 15-126 padded length octets, delivered in two or more chunks"),
 "C07-12": ("non-negative fast path with `<= 0x800000` at the 3-octet bound: 2**23 written as 80 00 00", "the exact INTEGER 8388608"),
 "C07-13": ("long-form lengths packed with struct, 3-octet branch bounded by 0xFFFFFFF: lengths 2^24..2^28-1 lose their top octet", "an element of 16 MiB or more"),
 "C08-13": ("re-entrancy flag set on entry to _send and cleared only after queuing (no try/finally): after any refused call every later send fails", "one refused send, then a call the state machine allows"),
 "C09-12": ("an entry/reference whose id is outstanding but not a search raises ProtocolError (original accepts and retires)", "SearchResultEntry/Reference answering an extended operation or a bind"),
 "C10-12": ("server retires the request id in a `finally:` with discard(): a refused final response retires the open request", "server BINDING with another request outstanding; refused done(2); bind_response(1); done(2)"),
 "C11-14": ("server response calls replace critical=True controls by critical=False", "a response with a critical control"),
 "C11-15": ("client extended_request builds value=value or None: b'' sent as absent", "extended_request(oid, b'')"),
 "C14-13": ("empty assertion value on >= / <= items refused", "(cn>=) or (cn<=)"),
 "C14-14": ("from_string deletes U+FEFF and U+200B from the whole text", "a raw U+FEFF / U+200B inside an assertion value"),
 "C14-15": ("escapes decoded into a module-level scratch bytearray emptied only on success", "a refused filter whose second or later escape is malformed, then a valid filter with an escape"),
 "C14-16": ("nesting pre-scan; on RecursionError the depth is stored in a module-level limit", "one low-headroom parse hitting RecursionError, then a deeper valid filter from a normal stack"),
 "C16-14": ("`\\r?\\n ` (LDIF line folding) deleted from the input of all three from_string methods", "DESC or extension text containing a line feed followed by a space"),
 "C17-13": ("SYNTAX oid/len read from named groups of the main regex, second pass removed: quoted form loses its {len}", "SYNTAX '<oid>{256}' (AD quotes and a length bound together)"),
 "C17-14": ("NAME list split with re.split(' +') without the `if n` filter: NAME ( ) gives ['']", "a definition with an empty NAME list"),
 "C17-15": ("quoted SYNTAX gets its own branch that no longer extracts {len}", "SYNTAX '<oid>{64}'"),
 "C17-16": ("texts that failed to match remembered in a module-level set keyed by text only, not by kind", "the same text tried as the wrong kind first, then as the right kind"),
 "C19-14": ("context tags [1] and [2] refused in AuthenticationCredential.unpack before the registered choices are consulted", "custom credential registered with auth_id 1 or 2"),
 "C19-15": ("BER filter nesting tracked; innermost RecursionError stored as a process-wide limit", "a low-headroom receive of a nested filter in one session, then a fresh session receiving a deeper valid request"),
}
S.update(R7)
ORIGIN5 |= set(R7)
ROUND7 = set(R7)

# ---- round 8 (angles: decoder leniency corners, session API plumbing, text grammar corners, optimisations)
R8 = {
 "C01-17": ("decoded attribute selection collected in an insertion-ordered dict: duplicate selectors dropped", "SearchRequest with attributes like ['cn','sn','cn']"),
 "C01-18": ("decoded attribute descriptions interned in a module-level dict keyed by the raw octets only (ignores string_encoding)", "the same type octets decoded under two different PackingOptions encodings"),
 "C04-12": ("protocolOp read with an expected tag that has constructed=True: the RFC's primitive UnbindRequest 42 00 refused", "an unbind with identifier 0x42"),
 "C04-13": ("skip_value guard `end >= len(view)` off by one: an unrecognised element in the last position raises NotEnougData", "unknown trailing element with nothing after it"),
 "C04-14": ("SaslCredential.unpack reads whatever follows the mechanism with header= (tag check disabled)", "SASL sequence of mechanism plus one non-OCTET-STRING trailing element, no credentials"),
 "C04-15": ("ASN1Reader context manager raising on unread octets, used in _unpack_partial_attribute", "trailing element inside a PartialAttribute"),
 "C04-16": ("unpack_ldap_control if BOOLEAN / elif OCTET STRING: after a criticality the next element is read as controlValue unconditionally", "control shaped type, BOOLEAN, <unknown element>"),
 "C04-17": ("module-level memo of decoded INTEGERs keyed by content octets caching (value, consumed)", "the same integer content decoded twice with different length forms"),
 "C08-14": ("client tracks the in-flight bind by id: any response to that id other than in-progress BindResponse moves BINDING -> OPENED", "a non-bind response carrying the bind's id while BINDING"),
 "C08-15": ("per-session memo of the send-gate decision keyed by (state, type(msg)) although it depends on msg.name", "two extended_response calls while BINDING, one notice and one ordinary"),
 "C11-16": ("bind_simple forwards the password only when the DN is non-empty", "bind_simple('' or None, 'pw')"),
 "C11-17": ("bind_response drops sasl_creds unless the code is SUCCESS or SASL_BIND_IN_PROGRESS", "sasl_creds together with a failing result code"),
 "C11-18": ("search_request sets time_limit=int(size_limit)", "size_limit != time_limit"),
 "C11-19": ("bind_sasl forces cred to None when the mechanism is EXTERNAL", "bind_sasl('EXTERNAL', cred=b'authzid')"),
 "C11-20": ("unbind on a BEFORE_OPEN session just sets CLOSED and queues nothing", "unbind() as the very first call of a fresh client"),
 "C11-21": ("last encoded controls element memoised while `last == controls` (same list object mutated in place compares equal)", "the same controls list passed twice with an element replaced in between"),
 "C13-13": ("blanks directly after the operator skipped by the text parser", "assertion value whose first octet is 0x20"),
 "C14-17": ("attribute option must start with a letter or hyphen", "options starting with a digit (cn;1)"),
 "C15-13": ("malformed value's FilterSyntaxError instance cached and re-raised with the first filter's text/offset", "the same bad escape parsed twice at different positions"),
 "C16-15": ("extensions cut with re.split(SP xstring SP): a value containing a blank-delimited X-foo word is split", "extension value like 'replaced by X-ORIGIN in 2.0'"),
 "C16-16": ("qdstring results NFC-normalised", "DESC/extension text that is not NFC-stable"),
 "C16-17": ("128-slot ring cache in _parse_qdstring evicting by the unescaped text instead of the raw key", "an escaped string, 128 other escaped strings, the first again"),
 "C17-17": ("NUMERICOID first arc restricted to [0-2]", "numeric OIDs starting with 3..9 or two digits"),
 "C17-18": ("_parse_oids drops repeated members (dict.fromkeys)", "an oid list with the same member twice"),
}
S.update(R8)
ORIGIN5 |= set(R8)
ROUND8 = set(R8)

# ---- round 9 (angles: symmetric mistakes against the standards, mid-delivery errors, integer/tag/length arithmetic, hidden cost and cross-session coupling)
R9 = {
 "C03-15": ("scope and derefAliases written and read in swapped order", "SearchRequest with scope != deref, judged by an independent decoder"),
 "C03-16": ("searchResRef URIs wrapped in an extra universal SEQUENCE (IMPLICIT treated as EXPLICIT), decoder accepts both", "any SearchResultReference judged by an independent decoder"),
 "C03-17": ("referral [3] emitted primitive (0x83) after a tag-helper refactor; the library reads it via header=", "a result with referrals"),
 "C05-13": ("decoding moved into a helper that only converts ValueError/NotImplementedError/RecursionError: a ProtocolError raised inside a registered custom type's unpack passes without closing the session", "custom control whose unpack raises ProtocolError, in a later PDU of a delivery"),
 "C05-14": ("notice diagnostic capped with .encode()[:1024].decode(): a cut inside a multi-octet character lets UnicodeDecodeError escape", "server receives a notice with a long non-ASCII diagnostic message"),
 "C05-15": ("e.response = copy of the outgoing buffer followed by the notice", "pending (partly drained) server output when a delivery fails"),
 "C05-16": ("refused PDUs carry request=msg and the wrapper appends '(message id N)' outside the try: int->str limit", "refused PDU with a messageID of more than 4300 digits"),
 "C07-14": ("low-tag form chosen with tag_number <= 31", "tag number 31"),
 "C07-15": ("high-tag reader scans only data[:5]", "tag number >= 2^35"),
 "C07-16": ("class check `not in range(TagClass.PRIVATE)`: PRIVATE-class writes raise", "any PRIVATE-class tag"),
 "C07-17": ("INTEGER content of more than 8 octets read with int.from_bytes without signed=True", "negative values of 9 or more content octets"),
 "C08-16": ("received requests registered only after the whole delivery is processed: bind-while-outstanding check misses earlier PDUs of the same delivery", "[SearchRequest][BindRequest] in one receive call"),
 "C09-13": ("messageID read unsigned: a response with wire id -1/-56/-128 retires operation 255/200/128", "a negative id sharing the low octet of an operation in progress"),
 "C11-22": ("size/time limit capped with min(x, 1 << 31 - 1) = 2^30", "search_request with a limit in (2^30, maxInt]"),
 "C12-14": ("unbind empties the outgoing buffer before queuing the UnbindRequest", "pending or partly drained bytes when unbind() is called"),
 "C13-14": ("And/Or/Not __str__ evaluates str(child) twice per level: 2^depth", "str() of a filter nested 20 or more deep"),
 "C14-18": ("parser drops blanks after the operator, writer escapes a leading blank as \\20 (round trips hold)", "RFC 4515 strings whose value starts with a space"),
 "C17-19": ("USAGE keyword dSAOperation spelled dsaOperation in enum, regex and writer", "USAGE dSAOperation"),
 "C17-20": ("ORDERING and SUBSTR transposed in regex and writer", "a definition carrying both in RFC order"),
 "C18-14": ("NOIDLEN_MATCH widened with a nested quantifier followed by a required '{'", "quoted SYNTAX name of 24+ letters without '{'"),
 "C18-15": ("look-ahead parses every operand once more at each level of the text parser", "a valid filter nested 18 or more deep"),
 "C19-16": ("process-wide cap of 1024 pseudo members for unknown result codes; afterwards unknown codes decode as OTHER", "more than 1024 distinct unknown codes decoded anywhere in the process"),
 "C19-17": ("memoryview arguments used as is and released when the residue is taken", "the same caller-owned memoryview given to two sessions"),
 "C19-18": ("module-level total of buffered incomplete bytes with a 64 MiB limit, never returned when a session is dropped", "~64 MiB pending or leaked across other sessions"),
}
S.update(R9)
ORIGIN5 |= set(R9)
ROUND9 = set(R9)

# ---- round 10 (angles: the too-strict direction of every iff/exactly, docstring promises, nested encodings and known controls, enumerations and the Python data model)
R10 = {
 "C01-19": ("PartialAttribute values written sorted by (length, octets) as 'canonical SET OF order'; decoder keeps wire order", "two or more values not already in that order"),
 "C01-20": ("decoded paged-results size floored with max(..., 0)", "negative page size"),
 "C01-21": ("criticality default hoisted above the per-control loop: a control without criticality inherits TRUE from an earlier one", "a critical control before a non-critical one in one message"),
 "C01-22": ("BER-decoded FilterAnd/FilterOr hold a tuple where built and parsed ones hold a list: == says differ", "any nested and/or filter decoded and compared with =="),
 "C02-13": ("PartialAttribute values returned as memoryview slices of the receive() input", "bytearray input overwritten after the call"),
 "C03-18": ("empty paged-results cookie omitted on encode and defaulted on decode (symmetric)", "paged control with cookie b''"),
 "C03-19": ("DereferencingPolicy.IN_SEARCHING and FINDING_BASE_OBJ swap their numbers", "an application writing the members by name, judged against the RFC numbering"),
 "C03-20": ("ASN1Writer.__exit__ returns True for child writers: exceptions inside push_sequence bodies are swallowed, truncated messages queued", "a message whose text cannot be encoded / a custom control refusing its value"),
 "C04-18": ("PagedResultControl.unpack refuses anything left in the inner SEQUENCE or value", "paged value with a trailing element inside the inner SEQUENCE"),
 "C05-17": ("max_incoming_size guard (16 MiB) raises ProtocolError before the try block: session not CLOSED", "pending incomplete PDU pushed past 16 MiB"),
 "C06-14": ("receive stashes input while buffer+data is under 7 octets", "complete malformed units of 2-6 octets as the last bytes"),
 "C07-18": ("child writer close passes a literal True for the constructed bit", "push_sequence/push_set with a primitive-form tag"),
 "C08-17": ("client refuses a SASL bind with a different mechanism after saslBindInProgress", "bind_sasl(A), in-progress response, bind_sasl(B)"),
 "C08-18": ("server skips the bind-while-outstanding check while already BINDING", "bind, no response, bind again delivered raw to a server"),
 "C09-14": ("BindResponse with PROTOCOL_ERROR raises ProtocolError and closes the client", "a bind answered with result code 2"),
 "C11-23": ("server refuses a StartTLS ExtendedRequest while another request is outstanding", "StartTLS OID sent while a search is unanswered"),
 "C11-24": ("server strips attribute values from entries of typesOnly searches", "search_request(types_only=True) and an entry with values"),
 "C11-25": ("client clamps the paged-results page size to size_limit", "page size above a non-zero size_limit"),
 "C11-26": ("server result helper uses `result_code or SUCCESS`; pseudo-members for unknown codes are falsy", "a server response with an unnamed result code"),
 "C14-19": ("duplicate attribute option refused (case-insensitively)", "(cn;lang-en;lang-en=x)"),
 "C15-14": ("FilterSyntaxError derives from SyntaxError instead of ValueError", "any refused filter caught as ValueError"),
 "C16-18": ("QUTF8 excludes U+0000", "DESC or extension value containing NUL"),
 "C19-19": ("register_* folded into one helper with a single id set keyed by number only", "a credential and a filter sharing a number, or a credential id equal to a built-in filter id"),
 "C19-20": ("default control choices built from _KnownControl.__subclasses__(): an application subclass of a known control becomes known to every new session", "a custom type derived from ShowDeleted/Paged and a session that did not register it"),
}
S.update(R10)
ORIGIN5 |= set(R10)
ROUND10 = set(R10)

# ---- round 11 (angles: text at the wire boundary, second-order session flows, filters on the wire, free choice)
R11 = {
 "C01-23": ("decoded matchedDN gets rstrip of NUL (AD's trailing NUL, wrong field)", "a response whose matchedDN ends in U+0000"),
 "C01-24": ("decoded continuation URIs stripped", "a reference URI with leading/trailing whitespace or separators"),
 "C01-25": ("controlType decoded with the fixed codec ascii", "a control type containing a non-ASCII character"),
 "C01-26": ("'filter contains itself' check with a visited set instead of the current path: a DAG raises on pack", "one compound sub-filter object used in two places"),
 "C01-27": ("FilterNot.unpack 'exactly one' check assumes a 2-octet inner header", "a NOT around a filter of 128 or more content octets"),
 "C01-28": ("raw value exposed only `if control_value:`", "a known value-less control sent with a present-but-empty value"),
 "C02-14": ("server refuses a request that reuses the id of an operation in progress", "two unanswered requests with the same id"),
 "C03-21": ("SimpleCredential.pack drops one leading U+FEFF from the password", "a password starting with U+FEFF"),
 "C03-22": ("FilterNot.pack copies the form bit from the wrapped value (0x82 for a NOT around present), decoder forgives", "(!(attr=*)) judged by an independent decoder"),
 "C04-19": ("substrings ordering check fires for any element after a final, including unknown ones", "final [2] followed by an unrecognised element"),
 "C04-20": ("extensible match rejects constructed context-specific elements before the tag dispatch", "an unknown constructed trailing element inside the extensible sequence"),
 "C05-18": ("notice text built with strip().splitlines()[0] under a guard on the unstripped value", "a notice whose diagnostic is only blanks / NUL"),
 "C05-19": ("substring choices table with guard `>` instead of `>=`: [3] raises IndexError", "a [3] element inside a substrings list"),
 "C08-19": ("BINDING gate lets any ExtendedResponse with id 0 through", "BindRequest carrying id 0, then extended_response(0) while BINDING"),
 "C08-20": ("on a BindRequest the server first forgets its open searches", "an open search, then a BindRequest"),
 "C09-15": ("successful StartTLS response resets the client's outstanding sets", "StartTLS answered while a search streams"),
 "C09-16": ("per-search entry countdown from size_limit: the entry after the limit is refused", "a search with size_limit N receiving more than N entries"),
 "C09-17": ("saslBindInProgress for a bind sent with a simple credential is refused", "simple bind answered with code 14"),
 "C09-18": ("message id counter wraps at 0x7FFF", "more than 32767 requests on one client"),
 "C11-27": ("bind_sasl upper-cases the mechanism", "a mechanism that is not already upper-case"),
 "C11-28": ("server refuses non-bind requests after a failed multi-step SASL bind (flag cleared only by SUCCESS)", "in-progress round, failing final response, then an ordinary request"),
 "C17-21": ("empty split entries removed while iterating", "NAME list with runs of 3+ spaces or 2+ next to a paren"),
 "C19-21": ("filter choice cache keyed by the tuple of filter ids, not classes", "two sessions registering different classes under one id"),
 "C19-22": ("one prebuilt module-level ProtocolError for closed sessions; handlers attach their response bytes to it", "two closed sessions, first error inspected after the second call"),
}
S.update(R11)
ORIGIN5 |= set(R11)
ROUND11 = set(R11)

# ---- round 12 (four free-choice reviewers, one per code area)
R12 = {
 "C01-29": ("_KnownControl.get_value returns None (only Paged overrides): decoded value-less known controls drop the value they received on re-encode", "a generic LDAPControl carrying the ShowDeleted/ShowDeactivatedLink OID plus a value"),
 "C01-30": ("FilterPresent.unpack returns a shared FilterPresent('objectClass') for any letter case of that name", "a present filter on objectclass / OBJECTCLASS"),
 "C05-20": ("the server's attached notice takes message_id from e.request when present", "a peer-sent notice with a non-zero id"),
 "C05-21": ("assert end <= len(view) in skip_value: AssertionError escapes receive", "an unknown element whose length overruns its parent"),
 "C05-22": ("same as C05-20, found independently (notice id from the offending message)", "a peer-sent notice with a non-zero id"),
 "C07-19": ("fast path for INTEGER 0..127 hand-builds the identifier octet, ignoring the high-tag-number form", "write_integer/enumerated with an explicit tag numbered >= 31 and a value in 0..127"),
 "C08-21": ("outstanding requests kept in a defaultdict: a refused response call creates a phantom entry", "a refused response call, later a bind request while nothing real is outstanding"),
 "C11-29": ("new optional `referrals` parameter inserted before `controls` in three server calls", "controls passed positionally"),
 "C11-30": ("int-to-enum coercion moved into SearchRequest.__post_init__ with deref coerced through SearchScope", "dereferencing_policy given as the plain int 3"),
 "C11-31": ("server remembers an answered StartTLS and refuses a second one", "StartTLS request, success response, second StartTLS request"),
 "C11-32": ("MAX_SASL_STEPS = 16 on the server", "a 17th BindRequest in one negotiation"),
 "C11-33": ("MAX_ACTIVE_SEARCHES = 256 on the server", "more than 256 searches in progress at once"),
 "C11-34": ("size_limit and time_limit swap places in the signature while the body assigns by keyword", "a positional call in the documented order"),
 "C11-35": ("max_outstanding_requests = 1 << 17 on the server", "more than 131 072 unanswered requests on one connection"),
 "C14-20": ("filters whose UTF-8 form exceeds 1 MiB refused up front", "a valid filter text over 1 048 576 bytes"),
 "C15-15": ("blank-skipping loop after the operand of '!' without an end-of-view check: IndexError", "(&(!(a=b) ) - a blank after a NOT operand and a paren missing further out"),
 "C15-16": ("escape decoded with int(raw, 16).to_bytes(1): '\\-f' gives OverflowError", "a backslash followed by '-' and a hex digit"),
 "C16-19": ("writer omits the X- prefix when the stored extension name already starts with X-", "an extension named X-VENDOR (text X-X-VENDOR)"),
 "C17-22": ("definitions longer than 64 KiB refused before matching", "a valid definition over 65 536 characters"),
 "C17-23": ("re.IGNORECASE added and the kind looked up with ObjectClassKind[raw]: KeyError for a kind keyword in another case", "an object class whose kind keyword is not all upper case"),
 "C18-16": ("'MUST/MAY in either order' as ((MUST..)?(MAY..)?)*: ambiguous at clause level, 2^n on a failing tail", "~15 repeated MUST x MAY y pairs followed by a rejected character"),
 "C19-23": ("credential unpack starts honouring the unused is_primitive attribute against the received form bit", "a registered custom credential with a constructed encoding"),
 "C19-24": ("default filter choices reordered by tag and the scan stops at the first larger id; register_filter appends", "custom filters registered in descending id order"),
 "C19-25": ("pack helper tags with cls.filter_id of the built-in class instead of self.filter_id", "a registered custom filter derived from FilterEquality with its own number"),
}
S.update(R12)
ORIGIN5 |= set(R12)
ROUND12 = set(R12)

# ---- round 13 (free choice again; the reviewers report saturation: 10 changes from four reviewers)
R13 = {
 "C07-20": ("_read_asn1_enumerated loses the fallback to header.tag", "read_enumerated(T, header=peek_header()) on an ENUMERATED with a non-universal tag"),
 "C08-22": ("termination checks moved out of the base receive() into a helper only LDAPClient/LDAPServer call", "the exported base class LDAPSession given an unbind or a notice"),
 "C08-23": ("same as C08-22, found independently", "LDAPSession used directly"),
 "C08-24": ("BINDING gate exemption tests getattr(msg, 'name') instead of the message class", "a BINDING client calling extended_request with the notice OID"),
 "C11-36": ("server fills in the StartTLS OID when the application omits the response name", "StartTLS answered with name=None"),
 "C11-37": ("server folds PartialAttributes whose names are equal ignoring case", "an entry with two attribute names that are identical or differ only in case"),
 "C11-38": ("server refuses a SearchRequest with a negative sizeLimit/timeLimit (client and codec unchanged)", "search_request(size_limit=-1)"),
 "C14-21": ("extensible header components equal to 'dn' ignoring case folded to 'dn' up front", "a matching rule spelled DN / Dn"),
 "C15-17": ("OID arcs written with \\d in a str pattern without re.ASCII", "a non-ASCII decimal digit inside a numeric-OID attribute or rule"),
 "C18-17": ("seen context tags recorded in an int bitmask 1 << tag_number: a k-octet tag number builds a 2^(7k)-bit integer", "an unrecognised trailing element with 5 or more tag-number octets"),
}
S.update(R13)
ORIGIN5 |= set(R13)
ROUND13 = set(R13)

# ---- round 14 (free choice, emphasis on thin areas and rarely used entry points; 13 changes)
R14 = {
 "C01-31": ("module-level 'last protocolOp' cache for ops of 64+ octets: a hit returns the cached message with the new id and drops the new envelope's controls", "two consecutive decodes with byte-identical operations but different controls"),
 "C01-32": ("envelope controls loop refuses a second control with the same controlType", "a message with two controls sharing one OID"),
 "C01-33": ("decoder enforces MessageID 0..maxInt while the encoder emits any int", "a message id that is negative or >= 2^31"),
 "C04-21": ("envelope [10] responseName overrides the ExtendedResponse's own name (the `and not msg.name` guard dropped)", "an ExtendedResponse naming itself plus a trailing [10] with other text"),
 "C05-23": ("reassembly buffer 'reserved' with bytearray(announced length): OverflowError for >= 2^63", "a truncated first PDU announcing >= 2^63 octets"),
 "C05-24": ("NotEnougData -> ValueError conversion formats e.args[0]: IndexError when raised without arguments", "a complete envelope whose content ends where the next element's header is cut"),
 "C10-13": ("the BINDING refusal text formats the whole message: repr() of the caller's argument can fail", "a refused send whose argument is a 700-deep filter or a 5000-digit int"),
 "C12-15": ("amount = amount or len(buf): data_to_send(0) drains everything", "a zero-amount request while bytes are pending"),
 "C15-18": ("_ATTRIBUTE_PATTERN end anchor \\Z replaced by $ (reverts the D8 fix)", "one LF directly after an attribute, option list or rule"),
 "C15-19": ("same as C15-18, found independently", "(cn\\n=a)"),
 "C16-20": ("MAY written without the members that also appear in MUST (ignoring case)", "MUST and MAY lists sharing a member"),
 "C17-24": ("negative look-ahead forbids descriptors spelled like clause keywords in oid positions", "MUST ( MAY $ cn )"),
 "C19-26": ("register_control validates the type with a pattern that forgets the arc 0", "a custom control type with a .0. arc, or a non-numeric type string"),
}
S.update(R14)
ORIGIN5 |= set(R14)
ROUND14 = set(R14)

# ---- round 15 (line-by-line reading, ordinary triggers; 7 changes, all caught at once)
R15 = {
 "C01-34": ("non-ASCII URIs percent-encoded on pack (IRI mapping), decoder does not undo it", "a reference URI or referral with a non-ASCII character"),
 "C01-35": ("FilterAnd/FilterOr.unpack refuse an empty SET OF; the encoder still emits it", "a search filter containing (&) or (|)"),
 "C01-36": ("LDAPMessage.pack sorts self.controls in place (critical first)", "a non-critical control before a critical one, compared with a snapshot taken before pack"),
 "C01-37": ("PagedResultControl.get_value fast path with a one-octet bound 0xFF instead of 0x7F", "page size 128..255 with an empty cookie"),
 "C06-15": ("a terminating message that is not first in its delivery closes the session but is neither returned nor raised", "an ordinary message and an unbind / notice in one delivery"),
 "C15-20": ("FilterSyntaxError stores max(length, 1)", "from_string('')"),
 "C16-21": ("_encode_qdstring fast path when no quote is present forgets the backslash", "DESC or extension value with a backslash and no apostrophe"),
}
S.update(R15)
ORIGIN5 |= set(R15)
ROUND15 = set(R15)

# ---- round 16 (line-by-line again, "a different kind of mistake"; one reviewer found nothing, three found one each)
R16 = {
 "C06-16": ("a decode failure that follows good messages in the same receive call is stored and raised only on the next call", "well-formed PDUs followed by a complete malformed one in one delivery"),
 "C12-16": ("_send defers encoding: message objects are queued and encoded in data_to_send (caller-owned lists are still mutable)", "the application refills a list it passed to a send call before draining"),
 "C13-15": ("cycle guard in __str__ keeps a 'visited anywhere' id set: shared (not cyclic) sub-filter objects raise ValueError", "the same filter object used at two places of one tree"),
}
S.update(R16)
ORIGIN5 |= set(R16)
ROUND16 = set(R16)

# ---- round 17 (2026-10-04, one agent per property given only that property's text; least-covered properties; all 16 caught on the first run)
R17 = {
 "C02-15": ("_read_asn1_header computes a long-form length from the length octets that have arrived so far", "zero-padded long-form length (30 84 00 00 00 LL) cut inside the length octets"),
 "C02-16": ("receive() skips re-parsing until a remembered size is buffered; the size is set only when data is first buffered", "large message split; the completing chunk also carries the start of a smaller message"),
 "C06-17": ("_incoming_needed early return only reset when the buffer drains fully", "3 chunks: chunk 2 completes unit A and ends inside a shorter unit B; chunk 3 completes B"),
 "C06-18": ("unpack_ldap_message split in two: the per-operation unpack runs outside the NotEnougData -> ValueError guard", "complete outer unit whose inner element over-claims its length"),
 "C07-21": ("peek_header caches the header; read_enumerated does not clear the cache", "peek, read_enumerated, peek, read"),
 "C07-22": ("negative two's complement by one invert-and-carry pass whose carry rule looks at the original octet", "negative INTEGER of >= 3 octets with a 0x00 octet before the trailing zero run (FF 00 01)"),
 "C09-19": ("client registers the id as outstanding before the base _send", "a refused send, then a response with the never-issued id"),
 "C09-20": ("write_integer fast path 02 01 vv for 0 <= v <= 0xFF", "the 128th..255th request of one session"),
 "C10-14": ("server retires a request only on SearchResultDone or when the id is not a search", "search answered by an extended/bind response, then a second response"),
 "C10-15": ("server validation exempts by message_id != 0 instead of by UnbindRequest type", "server response with id 0"),
 "C12-17": ("_send encodes straight into the outgoing buffer; child writers flush on exception", "a send that passes the gates and fails while packing (lone surrogate in a late attribute)"),
 "C12-18": ("data_to_send keeps a read offset, compares the amount with the buffer length, does not clamp", "partial drain, drain of slightly more than pending, send, drain"),
 "C13-16": ("escapes decoded once up front for every filter type; substrings then split on '*'", "substring component containing a literal '*' octet"),
 "C13-17": ("serializer fast path: latin-1 isalnum values emitted raw", "value made only of Latin-1 letters/digits with an octet >= 0x80"),
 "C18-18": ("schema QUTF8 widened to [^']: escapes match two ways, 2^n on overall failure", "unterminated qdstring with ~20 escapes"),
 "C18-19": ("_unpack_complex_filter retries the nested parse with one more character on FilterSyntaxError", "invalid innermost item under >= ~14 levels of & | !"),
}
S.update(R17)
ROUND17 = set(R17)

# ---- round 18 (2026-10-04, one agent per remaining property, told that the obvious mechanisms were taken: process-level state,
# rarely used fields, boundary sizes, two cooperating sites; 22 verified, 5 missed on the first run, all caught now)
R18 = {
 "C01-38": ("LDAPResult._pack_inner writes the enum member instead of .value (pseudo-members built by _missing_ are int 0)", "a result code with no LDAPResultCode member"),
 "C01-39": ("decoded attribute descriptions interned in a module-level dict keyed by lower case: first spelling wins", "two entries (or one) with attribute names differing only in case, same process"),
 "C03-23": ("write_enumerated gets the enum member (result code, scope, deref): unknown codes go out as 0", "result code outside the table (118, 4096...)"),
 "C03-24": ("LDAPControl.pack writes self.value when set: a decoded known control re-sent carries the peer's octets", "PagedResultControl received in another valid BER form, then handed to the next request"),
 "C04-22": ("long-form length via int.from_bytes of the octets that have arrived", "AD-style 30 84 00 00 .. cut inside the length octets"),
 "C04-23": ("BOOLEAN fast path struct.unpack_from('xx?') assumes a one-octet length", "BOOLEAN with a long-form length (01 84 00 00 00 01 FF)"),
 "C05-25": ("diagnosticMessage decoded with surrogateescape; the server's own notice then fails to encode", "server receives a notice of disconnection whose diagnostic text is not UTF-8"),
 "C05-26": ("envelope [10] condition reordered: msg.name read on messages that have no name", "non-extended message with a non-empty trailing [10]"),
 "C08-25": ("envelope scan breaks after the controls: MS-ADTS [10] responseName after controls is not read", "AD-form notice of disconnection with controls before [10], id outstanding"),
 "C08-26": ("module-level set of message types that passed the BINDING gate", "any server sends a notice while BINDING, later an ExtendedResponse while BINDING in any session"),
 "C11-39": ("FilterOptions index built on first unpack and never refreshed", "search, then register_filter on both sides, then a search with the custom filter"),
 "C11-40": ("ASN1Reader.__bool__ is len > 1: a lone trailing octet on the un-buffered path is dropped", "delivery on an empty buffer ending exactly one octet into the next message"),
 "C14-22": ("'=' located with str.find using byte offsets", "multi-byte character in an earlier item of a compound filter"),
 "C14-23": ("process-wide cache of validated attributes keyed by lower case returns the first spelling", "same attribute in another letter case later in the process"),
 "C15-21": ("escape check replaced by bytes.fromhex, which skips blanks", "backslash + two blanks as a whole substring component"),
 "C15-22": ("process-wide attribute cache shared with extensible-match headers (which skip the RFC 4512 check)", "(cn:rule:=v) then (cn:rule=v) in one process"),
 "C16-22": ("_parse_oids under lru_cache: parsed definitions share list objects", "caller edits a parsed definition's list, then parses another definition with the same clause"),
 "C16-23": ("LDIF-style unfolding of the whole input, inside quoted strings too", "DESC / extension value containing a line break followed by a space"),
 "C17-25": ("extension memo keyed by the text with runs of spaces collapsed (inside quotes too)", "two definitions whose extension values differ only in inner spacing, same process"),
 "C17-26": ("second SYNTAX regex demands a length starting 1-9 while the outer accepts {0}", "SYNTAX 1.2{0}"),
 "C19-27": ("ShowDeleted/ShowDeactivatedLink unpack returns one shared instance; unpack_ldap_control then sets .value on it", "these controls received with a value, then again with another/none"),
 "C19-28": ("filter index cached under id(options), rebuilt only when the count changes", "a session with a custom filter is dropped; a new session's options reuse the address"),
}
S.update(R18)
ROUND18 = set(R18)

MISSED_FIRST = {"C03-24", "C05-25", "C08-25", "C11-39", "C15-21", "C13-15", "C01-31", "C10-13", "C17-24", "C19-26", "C07-20", "C08-22", "C08-23", "C11-37", "C11-38", "C18-17", "C01-30", "C11-32", "C11-33", "C14-20", "C15-15", "C19-24", "C19-25", "C11-35", "C18-16", "C01-26", "C04-19", "C05-18", "C08-19", "C09-16", "C11-27", "C01-28", "C02-14", "C09-18", "C19-21", "C19-22", "C01-22", "C03-19", "C03-20", "C05-17", "C07-18", "C09-14", "C11-26", "C15-14", "C16-18", "C19-20", "C05-13", "C05-14", "C05-15", "C09-13", "C11-22", "C13-14", "C19-16", "C19-17", "C19-18", "C11-16", "C11-20", "C11-21", "C15-13", "C11-14", "C11-15", "C17-13", "C19-14", "C06-13", "C07-13", "C14-15", "C14-16", "C17-15", "C17-16", "C19-15", "C02-11", "C02-12", "C06-12", "C13-12", "C14-11", "C15-12", "C16-13", "C01-11", "C01-12", "C04-11", "C05-11", "C07-11", "C08-12", "C09-11", "C11-11", "C13-11", "C17-11", "C19-11", "C19-12", "C19-13", "C01-9", "C02-10", "C07-10", "C10-10", "C13-10", "C15-10", "C04-8", "C08-8", "C11-8", "C15-7", "C18-7", "C18-8", "C06-3", "C07-1", "C11-3", "C13-2", "C19-1", "C19-2", "C01-6", "C04-6", "C05-6", "C12-5", "C15-6"}
NOT_CAUGHT = {"C10-7", "C11-12"}
PREEMPTIVE = {"C05-9", "C07-9", "C08-9", "C08-10", "C10-9", "C11-10", "C14-10", "C15-9", "C17-10", "C18-9", "C18-10", "C19-9", "C01-8", "C02-7", "C05-8", "C07-8", "C09-7", "C13-8", "C16-7", "C16-8", "C19-7", "C19-8", "C02-5", "C02-6", "C06-6", "C07-4", "C07-6", "C12-4", "C13-5", "C13-6", "C16-5", "C19-4", "C19-5", "C19-6"}
n = 0
for mid, (summary, needs) in S.items():
    p = os.path.join(V, "seeded", mid, "meta.json")
    if not os.path.exists(p):
        continue
    m = json.load(open(p))
    m["summary"] = summary
    m["needs_to_manifest"] = needs
    m["first_run_of_target_check"] = ("missed and still not caught: outside the domain the check claims (DESIGN 11.4)" if mid in NOT_CAUGHT else
                                      "missed (workload strengthened afterwards, DESIGN 11.4)" if mid in MISSED_FIRST else
                                      "not run before strengthening: judged a miss from the change description (no such inputs in the workload), workload strengthened first (DESIGN 11.4)" if mid in PREEMPTIVE else "caught")
    k_ = int(mid.split("-")[1])
    m["round"] = 18 if mid in ROUND18 else 17 if mid in ROUND17 else 16 if mid in ROUND16 else 15 if mid in ROUND15 else 14 if mid in ROUND14 else 13 if mid in ROUND13 else 12 if mid in ROUND12 else 11 if mid in ROUND11 else 10 if mid in ROUND10 else 9 if mid in ROUND9 else 8 if mid in ROUND8 else 7 if mid in ROUND7 else 6 if mid in ROUND6 else 5 if k_ >= 11 else 4 if k_ >= 9 else 3 if k_ >= 7 else 2 if k_ >= 4 else 1
    if mid in ORIGIN5:
        m["origin"] = "independent sub-agent given the 19 property statements, a scratch worktree and one-line summaries of the earlier seeded changes (nothing else from /verif)"
    json.dump(m, open(p, "w"), indent=1)
    n += 1
print(n, "meta files updated")
