#!/usr/bin/env python3
"""Verifies seeded changes (patch + demonstration) in a scratch worktree and runs checks against them.
usage: eval_mutant.py <src_root> [--props C01,C02|all] [--only C01-1,...]   (src_root/<Cxx>/<k>/{patch.diff,demo.py,notes.md})
Writes /verif/seeded/<Cxx>-<k>/{patch.diff,demo.py,notes.md,meta.json} for every change that verifies."""
import json, os, shutil, subprocess, sys, time
V = os.path.dirname(os.path.dirname(os.path.abspath(__file__)))
WT = os.environ.get("WT", "/tmp/wt_mut")
ALL = [f"C{i:02d}" for i in range(1, 20)]

def sh(*a, **k):
    return subprocess.run(a, capture_output=True, text=True, errors='replace', **k)

def reset():
    sh("git", "-C", WT, "checkout", "--", ".")
    sh("git", "-C", WT, "clean", "-fdq")

def run_checks(props, tier="quick", target=None):
    out = {}
    for p in props:
        t0 = time.time()
        env = dict(os.environ, VERIF_REPO=WT)
        if target is not None and p != target and os.environ.get("MATRIX_DIV"):
            env["VERIF_BUDGET_DIV"] = os.environ["MATRIX_DIV"]
        c = sh(os.path.join(V, "check"), p, "--tier", tier, "--no-evidence", env=env, cwd=V)
        keys = [l.split("]")[0][len("violation["):] for l in c.stdout.splitlines() if l.startswith("violation[")]
        out[p] = {"rc": c.returncode, "violation_keys": keys[:6], "wall_s": round(time.time() - t0, 1), "budget": ("quick/" + env["VERIF_BUDGET_DIV"]) if "VERIF_BUDGET_DIV" in env else "quick",
                  "verdict": "caught" if c.returncode == 1 else "missed" if c.returncode == 0 else "inconclusive"}
    return out

def main():
    src = os.path.abspath(sys.argv[1])
    props_arg = "target"
    only = None
    for i, a in enumerate(sys.argv):
        if a == "--props":
            props_arg = sys.argv[i + 1]
        if a == "--only":
            only = set(sys.argv[i + 1].split(","))
    env = dict(os.environ, PYTHONPATH=os.path.join(WT, "src"))
    entries = []
    for name in sorted(os.listdir(src)):
        d0 = os.path.join(src, name)
        if not os.path.isdir(d0) or not name.startswith("C"):
            continue
        if "-" in name:  # seeded/<Cxx>-<k>/ layout
            entries.append((name.split("-")[0], name.split("-", 1)[1], d0))
        else:  # <Cxx>/<k>/ layout
            for k in sorted(os.listdir(d0)):
                entries.append((name, k, os.path.join(d0, k)))
    if True:
        for prop, k, d in entries:
            mid = f"{prop}-{k}"
            if not os.path.isfile(os.path.join(d, "patch.diff")) or (only and mid not in only):
                continue
            reset()
            ap = sh("git", "-C", WT, "apply", os.path.join(d, "patch.diff"))
            if ap.returncode != 0:
                print(f"{mid}: patch does not apply: {ap.stderr[:200]}"); continue
            t = sh("/venv/bin/python", "-m", "pytest", "-q", "-p", "no:cacheprovider", cwd=WT, env=env)
            tests = (t.stdout.strip().splitlines() or ["?"])[-1]
            tests_ok = t.returncode == 0
            demo = os.path.join(d, "demo.py")
            try:
                dm = sh("/venv/bin/python", demo, env=env, cwd=d, timeout=600).returncode
            except subprocess.TimeoutExpired:
                dm = "timeout"
            reset()
            try:
                dc = sh("/venv/bin/python", demo, env=env, cwd=d, timeout=600).returncode
            except subprocess.TimeoutExpired:
                dc = "timeout"
            verified = tests_ok and dm == 1 and dc == 0
            sh("git", "-C", WT, "apply", os.path.join(d, "patch.diff"))
            props = [prop] if props_arg == "target" else (ALL if props_arg == "all" else props_arg.split(","))
            res = run_checks(props, target=prop) if verified else {}
            reset()
            print(f"{mid}: tests[{tests[:30]}] demo_with={dm} demo_without={dc} verified={verified} " + " ".join(f"{p}:{r['verdict']}" for p, r in res.items()), flush=True)
            if verified:
                dst = os.path.join(V, "seeded", mid)
                os.makedirs(dst, exist_ok=True)
                for f in ("patch.diff", "demo.py", "notes.md"):
                    if os.path.exists(os.path.join(d, f)) and os.path.abspath(d) != os.path.abspath(dst):
                        shutil.copy(os.path.join(d, f), os.path.join(dst, f))
                meta_p = os.path.join(dst, "meta.json")
                meta = json.load(open(meta_p)) if os.path.exists(meta_p) else {}
                notes = open(os.path.join(d, "notes.md")).read() if os.path.exists(os.path.join(d, "notes.md")) else ""
                meta.update({"id": mid, "breaks_property": prop, "origin": "independent sub-agent given only the property text and a scratch worktree",
                             "base_commit": sh("git", "-C", WT, "rev-parse", "--short", "HEAD").stdout.strip(),
                             "needs_to_manifest": meta.get("needs_to_manifest") or notes[:1500],
                             "verified": {"existing_tests_with_change": tests, "demo_exit_with_change": dm, "demo_exit_without_change": dc,
                                          "how": "tools/eval_mutant.py: git apply in scratch worktree, PYTHONPATH=<wt>/src pytest, demo with and without the change"}})
                meta.setdefault("checks", {}).update(res)
                json.dump(meta, open(meta_p, "w"), indent=1)

if __name__ == "__main__":
    main()
