#!/bin/bash
# Full matrix: every quick check against every seeded change, in its own scratch worktree (run with `vp run`).
cd "$(dirname "$0")/.."
WT=/tmp/wt_matrix_$$
git -C /repo worktree add -q --detach $WT HEAD || exit 1
WT=$WT MATRIX_DIV=4 python3 tools/eval_mutant.py seeded --props all
git -C /repo worktree remove --force $WT
