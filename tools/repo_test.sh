#!/bin/bash
# Runs the repository's pinned test-suite (guard off) and exits with pytest's own status.
cd "${1:-/repo}" && env -u SANSLDAP_VERIF /venv/bin/python -m pytest -ra -q -p no:cacheprovider --timeout=900 --continue-on-collection-errors 2>&1 | tail -5
exit ${PIPESTATUS[0]}
