#!/usr/bin/env python3
"""Applies the deliberate breaks of DESIGN.md Appendix E, one at a time, to a scratch worktree and runs the
corresponding quick check (VERIF_REPO=<worktree>). Prints which are caught. Usage: own_breaks.py [ids...]"""
import os, subprocess, sys
WT = os.environ.get("WT", "/tmp/wt_mut")
V = os.path.dirname(os.path.dirname(os.path.abspath(__file__)))
B = [
 ("C01a", "C01", "_messages.py", "        if self.value is not None:\n            writer.write_octet_string(\n                self.value,\n                tag=ASN1Tag(TagClass.CONTEXT_SPECIFIC, 1, False),", "        if self.value:\n            writer.write_octet_string(\n                self.value,\n                tag=ASN1Tag(TagClass.CONTEXT_SPECIFIC, 1, False),"),
 ("C01b", "C01", "_messages.py", "        types_only=types_only,\n        filter=filter,", "        types_only=False,\n        filter=filter,"),
 ("C02a", "C02", "_session.py", "                self._incoming_buffer = bytearray(reader.get_remaining_data())\n\n            else:", "                self._incoming_buffer = bytearray() if incoming_msgs else bytearray(reader.get_remaining_data())\n\n            else:"),
 ("C02b", "C02", "asn1.py", "        return val.tobytes()\n\n    def read_set(", "        return val\n\n    def read_set("),
 ("C03a", "C03", "_messages.py", "        writer.write_integer(self.size_limit)\n        writer.write_integer(self.time_limit)", "        writer.write_integer(self.time_limit)\n        writer.write_integer(self.size_limit)", "    size_limit = reader.read_integer(hint=\"SearchRequest.sizeLimt\")\n    time_limit = reader.read_integer(hint=\"SearchRequest.timeLimit\")", "    time_limit = reader.read_integer(hint=\"SearchRequest.sizeLimt\")\n    size_limit = reader.read_integer(hint=\"SearchRequest.timeLimit\")"),
 ("C03b", "C03", "asn1.py", 'b"\\xFF" if value else b"\\x00"', 'b"\\x01" if value else b"\\x00"'),
 ("C04a", "C04", "asn1.py", 'return raw_bool.tobytes() != b"\\x00", consumed', 'return raw_bool.tobytes() == b"\\xff", consumed'),
 ("C04b", "C04", "asn1.py", "        length_octets += length & 0b01111111\n        length = 0\n", "        length_octets += length & 0b01111111\n        length = 0\n        if length_octets > 3:\n            raise ValueError('length too long')\n"),
 ("C05a", "C05", "_session.py", "        except (ValueError, NotImplementedError, RecursionError) as e:", "        except (ValueError, RecursionError) as e:"),
 ("C05b", "C05", "_session.py", "        except ProtocolError:\n            self.state = SessionState.CLOSED\n            self._outstanding_requests = set()\n            raise", "        except ProtocolError:\n            self._outstanding_requests = set()\n            raise"),
 ("C06a", "C06", "_messages.py", "    except NotEnougData as e:\n        # The LDAPMessage", "    except KeyError as e:\n        # The LDAPMessage"),
 ("C07a", "C07", "asn1.py", "        is_negative = True\n        limit = 0x80", "        is_negative = True\n        limit = 0x7F"),
 ("C07b", "C07", "asn1.py", "        i = (i << 7) + (element & 0b01111111)", "        i = (i << 8) + (element & 0b01111111)"),
 ("C07c", "C07", "asn1.py", "    if length < 128:\n        b_asn1_data.append(length)", "    if length <= 128:\n        b_asn1_data.append(length)"),
 ("C08a", "C08", "_session.py", "        if self.state == SessionState.CLOSED:\n            raise LDAPError(\"LDAP session is CLOSED, cannot send any new messages.\")", "        if self.state == SessionState.CLOSED and not isinstance(msg, BindRequest):\n            raise LDAPError(\"LDAP session is CLOSED, cannot send any new messages.\")"),
 ("C08b", "C08", "_session.py", "        self._send(msg)\n        self._outstanding_requests = set()\n        self.state = SessionState.CLOSED", "        was_binding = self.state == SessionState.BINDING\n        self._send(msg)\n        self._outstanding_requests = set()\n        if not was_binding:\n            self.state = SessionState.CLOSED"),
 ("C09a", "C09", "_session.py", "        elif msg.message_id not in self._outstanding_requests:\n            raise ProtocolError", "        elif msg.message_id not in self._outstanding_requests and not self._search_requests:\n            raise ProtocolError"),
 ("C09b", "C09", "_session.py", "            else:\n                remove_id = False\n", "            else:\n                remove_id = isinstance(msg, SearchResultReference)\n"),
 ("C10a", "C10", "_session.py", "        self._validate_outgoing_message(msg)\n        self._outgoing_buffer.extend(msg.pack(self._packing_options))", "        self._outgoing_buffer.extend(msg.pack(self._packing_options))\n        self._validate_outgoing_message(msg)"),
 ("C10b", "C10", "_session.py", "        self._search_requests.discard(msg_id)", "        self._search_requests.remove(msg_id)"),
 ("C11a", "C11", "_session.py", "        if isinstance(msg, SearchRequest):\n            self._search_requests.add(msg.message_id)\n\n        self._outstanding_requests.add(msg.message_id)", "        if isinstance(msg, SearchRequest):\n            self._search_requests.add(msg.message_id)\n        else:\n            self._outstanding_requests.add(msg.message_id)"),
 ("C11b", "C11", "_session.py", "        if isinstance(msg, BindResponse) and msg.result.result_code != LDAPResultCode.SASL_BIND_IN_PROGRESS:\n            self.state = SessionState.OPENED", "        if isinstance(msg, BindResponse):\n            self.state = SessionState.OPENED"),
 ("C12a", "C12", "_session.py", "        self._outgoing_buffer = self._outgoing_buffer[amount:]", "        self._outgoing_buffer = self._outgoing_buffer[amount + 1 :] if amount else self._outgoing_buffer"),
 ("C12b", "C12", "_session.py", "        data = bytes(self._outgoing_buffer[:amount])\n        self._outgoing_buffer = self._outgoing_buffer[amount:]", "        data = bytes(self._outgoing_buffer[:amount])\n        if amount >= len(self._outgoing_buffer):\n            self._outgoing_buffer = bytearray()"),
 ("C13a", "C13", "_filter.py", r'_STRING_ESCAPE_PATTERN = re.compile(r"[\x00-\x1F\(\)*\\\x7F-\xFF]".encode("utf-8"))', r'_STRING_ESCAPE_PATTERN = re.compile(r"[\x00-\x1F\(\)\\\x7F-\xFF]".encode("utf-8"))'),
 ("C13b", "C13", "_filter.py", 'return f"\\\\{ord(matchobj.group(0)):02x}".encode("utf-8")', 'return f"\\\\{ord(matchobj.group(0)):x}".encode("utf-8")'),
 ("C14a", "C14", "_filter.py", "                offset + read,\n                length - read - 1,", "                offset + read,\n                length - read,"),
 ("C14b", "C14", "_filter.py", '        if chr(current_view[i + read]) == ")":\n            value_length = i\n            break', '        if chr(current_view[i + read]) in ") ":\n            value_length = i\n            break'),
 ("C15a", "C15", "_filter.py", ")*\n\\Z\"\"\",\n    re.VERBOSE,", ")*\n$\"\"\",\n    re.VERBOSE,"),
 ("C15b", "C15", "_filter.py", "            length=length - (parens_start or 0),", "            length=length - (offset + (parens_start or 0)),"),
 ("C16a", "C16", "schema.py", '    return re.sub(f"{QS}|{QQ}", rplcr, value.strip("\'"))', '    return re.sub(f"{QS}", rplcr, value.strip("\'"))'),
 ("C17a", "C17", "schema.py", '    return [v.strip() for v in value.strip("() ").split("$")]', '    return [v for v in value.strip("() ").split("$")]'),
 ("C17b", "C17", "schema.py", 'names=[n.strip("\'") for n in names.strip("()").split(" ") if n] if names else [],\n            description=_parse_qdstring(desc),\n            obsolete=bool(obsolete),\n            super_types', 'names=[n.strip("\'") for n in names.strip("()").split("  ") if n] if names else [],\n            description=_parse_qdstring(desc),\n            obsolete=bool(obsolete),\n            super_types'),
 ("C18a", "C18", "schema.py", "QUTF8 = r\"[^'\\\\]\"\n", "QUTF8 = r\"[^'\\\\]+\"\n"),
 ("C18b", "C18", "_filter.py", "            parsed_filter, filter_read = _unpack_filter(\n                filter,\n                view,\n                offset + read,\n                length - read - 1,\n            )\n", "            _unpack_filter(filter, view, offset + read, length - read - 1)\n            parsed_filter, filter_read = _unpack_filter(\n                filter,\n                view,\n                offset + read,\n                length - read - 1,\n            )\n"),
 ("C19a", "C19", "_session.py", "class LDAPSession:\n", "_SHARED_OUTSTANDING: set = set()\n\n\nclass LDAPSession:\n", "        self._outstanding_requests: t.Set[int] = set()\n        self._search_requests", "        self._outstanding_requests: t.Set[int] = _SHARED_OUTSTANDING\n        self._search_requests"),
 ("C19b", "C19", "_controls.py", "    choices: t.List[t.Type[LDAPControl]] = dataclasses.field(\n        default_factory=lambda: [\n            PagedResultControl,\n            ShowDeactivatedLinkControl,\n            ShowDeletedControl,\n        ]\n    )", "    choices: t.List[t.Type[LDAPControl]] = dataclasses.field(default_factory=lambda: _DEFAULT_CONTROLS)", "@dataclasses.dataclass(frozen=True)\nclass LDAPControl:", "_DEFAULT_CONTROLS: list = []\n\n\n@dataclasses.dataclass(frozen=True)\nclass LDAPControl:"),
]
def sh(*a, **k):
    return subprocess.run(a, capture_output=True, text=True, **k)
want = sys.argv[1:]
for b in B:
    bid, prop, fn, *subs = b
    if want and bid not in want and prop not in want:
        continue
    sh("git", "-C", WT, "checkout", "--", ".")
    p = os.path.join(WT, "src/sansldap", fn)
    s = open(p).read()
    ok = True
    for i in range(0, len(subs), 2):
        if subs[i] not in s:
            ok = False
            break
        s = s.replace(subs[i], subs[i + 1], 1)
    if not ok:
        print(f"{bid}: PATTERN NOT FOUND"); continue
    open(p, "w").write(s)
    if bid == "C19b":
        # fill the shared default after the classes exist
        s2 = open(p).read() + "\n_DEFAULT_CONTROLS.extend([PagedResultControl, ShowDeactivatedLinkControl, ShowDeletedControl])\n"
        open(p, "w").write(s2)
    env = dict(os.environ, PYTHONPATH=os.path.join(WT, "src"))
    t = sh("/venv/bin/python", "-m", "pytest", "-q", "-p", "no:cacheprovider", "-x", cwd=WT, env=env)
    tests = t.stdout.strip().splitlines()[-1] if t.stdout.strip() else t.stderr[-200:]
    env2 = dict(os.environ, VERIF_REPO=WT)
    c = sh(os.path.join(V, "check"), prop, "--no-evidence", env=env2, cwd=V)
    vio = [l for l in c.stdout.splitlines() if l.startswith("violation[")]
    print(f"{bid}: tests[{tests[:40]}] check rc={c.returncode} {'CAUGHT' if c.returncode == 1 else 'MISSED'} {vio[0][:140] if vio else c.stdout.strip().splitlines()[-1][:140]}")
sh("git", "-C", WT, "checkout", "--", ".")
