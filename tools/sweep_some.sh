#!/bin/bash
# usage: tools/sweep_some.sh <tier> <seed> <checks...>  — like sweep.sh for a chosen list of checks
tier=$1; seed=$2; shift 2
cd "$(dirname "$0")/.."
for p in "$@"; do
  out=$(VERIF_SEED=$seed ./check $p --tier $tier --no-evidence 2>&1); rc=$?
  echo "seed=$seed $p rc=$rc $(echo "$out" | grep -E '^(HELD|INCONCLUSIVE|VIOLATION|INTERNAL)' | head -3 | tr '\n' ' ')"
  if [ $rc -ne 0 ]; then echo "$out" | grep -E "^violation|INCONCLUSIVE" | cut -c1-300 | head -5; fi
done
