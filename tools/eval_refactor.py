#!/usr/bin/env python3
"""False-alarm test: applies behaviour-preserving refactors (patch.diff under <src>/<Cxx>/r<k>/) to a scratch worktree,
runs the repository's tests and then every quick check; all must stay HELD. Prints one line per refactor."""
import json, os, subprocess, sys, time
V = os.path.dirname(os.path.dirname(os.path.abspath(__file__)))
WT = os.environ.get("WT", "/tmp/wt_mut")
ALL = os.environ["REFACTOR_CHECKS"].split(",") if os.environ.get("REFACTOR_CHECKS") else [f"C{i:02d}" for i in range(1, 20)]
def sh(*a, **k):
    return subprocess.run(a, capture_output=True, text=True, errors="replace", **k)
def reset():
    sh("git", "-C", WT, "checkout", "--", "."); sh("git", "-C", WT, "clean", "-fdq")
src = os.path.abspath(sys.argv[1])
only = set(sys.argv[2].split(",")) if len(sys.argv) > 2 else None
results = {}
entries = []
for name in sorted(os.listdir(src)):
    d0 = os.path.join(src, name)
    if os.path.isfile(os.path.join(d0, "patch.diff")):  # flat layout: <src>/<id>/patch.diff (seeded/refactors)
        entries.append((name.split("-")[0] if name.startswith("C") else "", name, d0))
    elif os.path.isdir(d0):
        for k in ("r1", "r2", "r3", "r4"):
            entries.append((name, f"{name}-{k}", os.path.join(d0, k)))
for prop, rid, d in entries:
    if True:
        if not os.path.isfile(os.path.join(d, "patch.diff")) or (only and rid not in only):
            continue
        reset()
        ap = sh("git", "-C", WT, "apply", os.path.join(d, "patch.diff"))
        if ap.returncode != 0:
            print(f"{rid}: patch does not apply: {ap.stderr[:150]}", flush=True); continue
        t = sh("/venv/bin/python", "-m", "pytest", "-q", "-p", "no:cacheprovider", cwd=WT, env=dict(os.environ, PYTHONPATH=os.path.join(WT, "src")))
        tests = (t.stdout.strip().splitlines() or ["?"])[-1]
        res = {}
        for p in ALL:
            env = dict(os.environ, VERIF_REPO=WT)
            if p != prop:
                env["VERIF_BUDGET_DIV"] = os.environ.get("REFACTOR_DIV", "4")
            c = sh(os.path.join(V, "check"), p, "--no-evidence", env=env, cwd=V)
            res[p] = c.returncode
            if c.returncode != 0:
                lines = [l for l in c.stdout.splitlines() if l.startswith(("violation[", "INCONCLUSIVE"))][:3]
                print(f"   {rid} {p} rc={c.returncode}: " + " | ".join(x[:220] for x in lines), flush=True)
        results[rid] = {"tests": tests, "checks": res}
        bad = [p for p, rc in res.items() if rc != 0]
        print(f"{rid}: tests[{tests[:28]}] checks: {'ALL HELD' if not bad else 'ALARMS: ' + ','.join(bad)}", flush=True)
reset()
json.dump(results, open(os.environ.get("REFACTOR_OUT", "/tmp/refactor_results.json"), "w"), indent=1)
