#!/usr/bin/env python3
"""Writes /verif/known_findings.json (committed; never written by a check at run time)."""
import json, os
HERE = os.path.dirname(os.path.dirname(os.path.abspath(__file__)))
H = lambda s: {"hex": s}
F = []
def fixed(prop, key, commit, failed, witness, what=""):
    F.append({"property": prop, "key": key, "status": "fixed", "commit": commit,
              "line": f"fixed: property={prop} {commit} {failed}", "what": what or failed, "witness": witness})
def open_(prop, key, what, witness):
    F.append({"property": prop, "key": key, "status": "open", "what": what, "witness": witness})

# ---- repaired in /repo (one 'fix:' commit each); these suppress nothing
fixed("C07", "int-read-exc:ValueError:byte must be in range", "5b046f5",
      "reading a negative INTEGER whose content ends in two or more 0x00 octets (02 03 ff 00 00 = -65536) raised ValueError('byte must be in range(0, 256)')",
      {"kind": "int", "args": [-65536, None, False, H("")]}, "single-step carry in _read_asn1_integer; C01 saw it as unpack-exc for any message carrying such an integer")
fixed("C04", "alt-exc:BindRequest:ValueError:Expected tag ASNTagtagclassTagClassUNIVERSAL  ta", "8178921",
      "SASL BindRequest without credentials followed by an unrecognised trailing element in SaslCredentials raised ValueError (tag mismatch)",
      {"message": ["BindRequest", 1, [3, "", ["sasl", "X", None]], []], "mode": ["single", 5, "trail1"], "rseed": "kf"})
fixed("C05", "escape:IndexError", "130ebcb",
      "LDAPServer().receive(bytes.fromhex('300402004200')) raised IndexError and left the session open (zero-length INTEGER)",
      {"role": "server", "history": "fresh", "data": H("300402004200"), "cuts": []})
fixed("C05", "escape:RecursionError", "60a83a1",
      "a SearchRequest whose filter is nested >= ~490 levels made receive raise RecursionError and left the session open",
      {"role": "server", "history": "fresh", "data_gen": "nested_filter_search(600,'not')", "cuts": []})
fixed("C06", "complete-unit-unaccounted", "0ec9c4c",
      "a complete LDAPMessage whose inner element overruns it (30 08 02 01 01 63 03 04 05 61) was dropped without error and the complete message after it was held back",
      {"session": "base", "stream": H("30080201016303040561" + "300a02010277058003312e32"), "cuts": []})
fixed("C10", "rejected-call-queued-bytes:server.extended_response", "cc58beb",
      "fresh LDAPServer().extended_response(5) raised LDAPError but left 16 bytes queued for the client",
      {"mode": "drain", "steps": [["s", ["extended_response", 5, None, None, 0, None, None, None]]]})
fixed("C10", "unexpected-exception:server.done:KeyError", "fbf6124",
      "search_result_done(id of an outstanding ExtendedRequest) queued the response and then raised KeyError",
      {"mode": "drain", "steps": [["s", ["receive", H("300a02010177058003312e32")]], ["s", ["done", 1, 0, None, None, None]]]})
fixed("C08", "closed-not-final:accepted:client.bind_simple", "e4494f5",
      "c.unbind(); c.bind_simple() re-opened a CLOSED client (state BINDING, BindRequest queued); bind_response on a CLOSED server set OPENED; a rejected bind_response(unknown id) moved BINDING to OPENED",
      {"single": "client", "steps": [["c", ["unbind"]], ["c", ["bind_simple", "cn=a", "pw", None]]]})
fixed("C14", "sentence-misparsed", "e7e1f4e",
      "'(:dn:=v)' was parsed as dn_attributes=True with neither rule nor attribute instead of the matching rule 'dn'", {"text": "(:dn:=v)"})
fixed("C14", "sentence-rejected:upper-case-dn-literal", "4b0178f",
      "'(cn:DN:2.4.6.8.10:=v)' was rejected ('Extra data found in extensible filter header'); ABNF literals are case-insensitive", {"text": "(cn:DN:2.4.6.8.10:=v)"})
fixed("C15", "accepted-invalid:attribute-trailing-newline", "2d8f571",
      "from_string('(cn\\n=foo)') was accepted with attribute 'cn\\n' ('$' matches before a trailing newline)", {"text": "(cn\n=foo)"})
fixed("C15", "error-position:negative-length", "a6a1165",
      "from_string('(&(a=b)(c=d)') raised FilterSyntaxError(offset=7, length=-3)", {"text": "(&(a=b)(c=d)"})
fixed("C15", "escape:RecursionError", "4b0c267",
      "from_string('(&'*600 + '(a=b)' + ')'*600) raised RecursionError instead of FilterSyntaxError", {"text": "(&" * 600 + "(a=b)" + ")" * 600})

fixed("C16", "reparse-exc:text-with-pipe:ValueError:value is not a valid ObjectCla", "a78e749",
      "str(ObjectClassDescription('1.2', description='a|b')) wrote 'a\\7cb' and from_string of that text raised ValueError ('|' escaped by the writer, unknown to the reader)",
      {"kind": "oc", "definition": {"oid": "1.2", "names": [], "description": "a|b", "obsolete": False, "super_types": [], "kind": "STRUCTURAL", "must": [], "may": [], "extensions": {}}})
fixed("C17", "sentence-rejected:ext-name-followed-by-2+-spaces", "7e652cb",
      "from_string(\"( 1.2 X-A  'v' )\") (two spaces after the extension name) raised ValueError('not enough values to unpack') or returned wrong extension names/values",
      {"kind": "oc", "text": "( 1.2 X-A  'v' )"})
fixed("C18", "super-polynomial:schema:desc-unterminated", "db2dcf0",
      "ObjectClassDescription.from_string(\"( 1.2 DESC '\" + 'a'*n) took time x4 per +2 characters (0.36 s at n=22, cap at n=26): nested quantifier ([^'\\\\]+)+",
      {"family": "desc-unterminated", "target": "schema-oc", "desc": {"hand": "desc-unterminated"}})
fixed("C18", "super-polynomial:filter:oid-attr-dotted-bad-suffix", "3b4f209",
      "LDAPFilter.from_string('(' + '1.'*n + '1x=a)') took time x4 per +2 arcs (cap at n=48): ambiguous alternatives [0-9] | [1-9][0-9]* under a star",
      {"family": "oid-attr-dotted-bad-suffix", "target": "filter", "desc": {"hand": "oid-attr-dotted-bad-suffix"}})

fixed("C18", "super-polynomial:schema:ext-empty-lists", "a794fe1",
      "ObjectClassDescription.from_string('( 1.2' + ' X-a (   )'*n + ' !') took time x4-5 per extra group (2.3 s at n=11): two adjacent WSP around an empty list",
      {"family": "ext-empty-lists", "target": "schema-oc", "desc": {"hand": "ext-empty-lists"}},
      "first reported by the independent C18 sub-agent on the unmodified tree; re-found by the pumping monitor after spans were aligned to tokens")

# ---- genuine, recorded, not repaired (reason in 'what'); keyed by mechanism, classifier lives in the check
PIN = "Not repaired: the repository's own tests pin this behaviour, so a fix cannot pass the unedited suite."
open_("C03", "unbind-constructed-bit",
      "UnbindRequest is emitted as 62 00 (constructed [APPLICATION 2]); RFC 4511: UnbindRequest ::= [APPLICATION 2] NULL is primitive (42 00). " + PIN + " (tests/test_controls.py: 9 pack tests contain 62 00)",
      {"message": ["UnbindRequest", 0, [], []]})
open_("C05", "unbind-constructed-bit",
      "the unbind attached to a client-side ProtocolError is 30 05 02 01 00 62 00 - same mechanism as C03/unbind-constructed-bit. " + PIN,
      {"role": "client", "history": "fresh", "data": H("0400"), "cuts": []})
open_("C13", "rule-named-dn-with-attribute",
      "FilterExtensibleMatch(rule spelled 'dn' in any case, attribute='cn', dn_attributes=False) renders as '(cn:dn:=v)', which RFC 4515 reads (and the parser returns) as dn_attributes=True without rule. Not repaired: the text form has no spelling that keeps both; a fix would have to refuse such objects (behaviour removal).",
      {"tree": ["ext", "dn", "cn", H("76"), False]})
open_("C15", "accepted-invalid:attribute-single-arc-oid",
      "from_string('(1=a)') / '0=*' accept a single number as attribute description; RFC 4512 numericoid needs at least two arcs. " + PIN + " (tests/test_filter.py::test_attribute_parsing['0'], ['0;option'])",
      {"text": "(1=a)"})
open_("C15", "accepted-invalid:rule-single-arc-oid",
      "from_string('(cn:0:=v)') accepts a single number as matching rule. " + PIN + " (TestFilterExtensibleMatch::test_from_string[only_rule_oid_0])",
      {"text": "(cn:0:=v)"})
open_("C15", "accepted-invalid:rule-with-options",
      "from_string('(cn:caseExactMatch;x:=v)') accepts attribute options on a matching rule (RFC 4515: matchingrule = COLON oid). " + PIN + " (test_from_string[only_rule_options], [attribute_dn_rule_options])",
      {"text": "(cn:caseExactMatch;x:=v)"})

F2 = F
json.dump({"comment": "Genuine defects of jborean93/sansldap found by the checks. 'open' entries are keyed by mechanism (classifier in the check) and only they suppress a VIOLATION; 'fixed' entries suppress nothing and their witnesses are replayed as regression cases.",
           "findings": F2}, open(os.path.join(HERE, "known_findings.json"), "w"), indent=1)
print(len(F2), "entries")
