#!/bin/bash
# False-alarm run: every quick check against every behaviour-preserving refactor of seeded/refactors (run with `vp run`).
cd "$(dirname "$0")/.."
WT=/tmp/wt_refactor_$$
git -C /repo worktree add -q --detach $WT HEAD || exit 1
WT=$WT REFACTOR_DIV=${REFACTOR_DIV:-4} REFACTOR_OUT=seeded/refactors/RESULTS_run.json python3 tools/eval_refactor.py seeded/refactors $1
git -C /repo worktree remove --force $WT
