#!/bin/bash
# usage: tools/sweep.sh <tier> <seeds...>  — runs every check for every seed without writing evidence; prints non-HELD results
tier=$1; shift
cd "$(dirname "$0")/.."
for seed in "$@"; do
  for p in C01 C02 C03 C04 C05 C06 C07 C08 C09 C10 C11 C12 C13 C14 C15 C16 C17 C18 C19; do
    out=$(VERIF_SEED=$seed ./check $p --tier $tier --no-evidence 2>&1); rc=$?
    echo "seed=$seed $p rc=$rc $(echo "$out" | grep -E '^(HELD|INCONCLUSIVE|VIOLATION|INTERNAL)' | head -3 | tr '\n' ' ')"
    if [ $rc -ne 0 ]; then echo "$out" | grep -E "^violation|INCONCLUSIVE" | cut -c1-300 | head -5; fi
  done
done
