#!/usr/bin/env python3
"""Replays every known-finding witness against the tree named by VERIF_REPO (default /repo) and prints what fires."""
import importlib, json, os, sys
sys.path.insert(0, os.path.dirname(os.path.dirname(os.path.abspath(__file__))))
from vf.common import import_sansldap, unjson, DEPS
sys.path.append(DEPS)
import_sansldap()
d = json.load(open(os.path.join(os.path.dirname(__file__), "..", "known_findings.json")))
for e in d["findings"]:
    mod = importlib.import_module("vf.props." + e["property"].lower())
    try:
        found = mod.replay(unjson(e["witness"]))
    except Exception as ex:
        found = [("REPLAY-ERROR", repr(ex))]
    keys = [k for k, _ in found]
    print(f"{e['property']} {e['status']:5} {e['key'][:60]:60} -> {'FIRES ' + str(keys[:2]) if found else 'silent'}")
